"""C06: same problem, same answer: results are reproducible."""
import json, os, subprocess, sys
import vlib
from props import solverstream as ss

THEOREMS = ["C06_simplify_order_independent"]
CHECKER = ("tools/census.py vs tools/census_expected.json (hash-container iteration sites); harness snapshot_cases: provider call order of "
           "repeated DependencySnapshot captures; harness solve_cases --repeat run as "
           "N separate processes (fresh ahash seeds): solution order, provider call order, conflict graph, graphviz and message "
           "text must be byte-identical across processes and across two solver instances in one process")


def run(res, tier, seed, replay):
    vlib.proof_gate(res, "C06", THEOREMS)
    # census of hash-iteration sites
    sys.path.insert(0, os.path.join(vlib.ROOT, "tools"))
    import census
    now = census.census()
    exp = json.load(open(os.path.join(vlib.ROOT, "tools", "census_expected.json")))
    key = lambda s: (s["file"], s["fn"], s["container"], s["how"], s["count"])
    new = [s for s in now if key(s) not in {key(e) for e in exp}]
    gone = [e for e in exp if key(e) not in {key(s) for s in now}]
    res.obligation(not new, None if not new else f"new hash-container iteration site(s) not accounted for: {new}", {"new_sites": new})
    nproc = 3 if tier == "quick" else 10
    k = 1 if tier == "quick" else 15
    capture_replay = bool(replay) and json.load(open(replay)).get("replay", {}).get("kind") == "capture_order"
    if capture_replay:
        jobs = []
    elif replay:
        cases = ss.replay_cases(replay)
        tmp = os.path.join(vlib.OUT, "c06_cases.jsonl")
        os.makedirs(vlib.OUT, exist_ok=True)
        open(tmp, "w").write("\n".join(json.dumps(c) for c in cases) + "\n")
        jobs = [(["--cases", tmp], "replay")]
    else:
        jobs = []
        for i, (cls, feat, mode, count) in enumerate([("conflict", 255, "sync", 150 * k), ("dense", 255, "sync", 100 * k),
                                                      ("small", 255, "sync", 100 * k), ("greedy", 25 | 128, "sync", 50 * k),
                                                      ("conflict", 127, "yield", 50 * k), ("conflictc", 255, "sync", 150 * k)]):
            jobs.append((["--class", cls, "--feat", str(feat), "--mode", mode, "--seed", str(seed * 10 + i), "--count", str(count)],
                         f"{cls}/{feat}/{mode}"))
    b = os.path.join(vlib.cargo_build("debug", hooks=True, bins=["solve_cases"]), "solve_cases")
    br = os.path.join(vlib.cargo_build("release", hooks=True, bins=["solve_cases"]), "solve_cases")
    import concurrent.futures as cf

    def one(t):
        binp, args = t
        return vlib.run_harness(binp, args + ["--repeat", "--no-dump"])[0]
    nproc_total = 0
    for args, tag in jobs:
        runs = []
        with cf.ThreadPoolExecutor(max_workers=vlib.NCPU) as ex:
            runs = list(ex.map(one, [(b, args)] * nproc + [(br, args)] * 2))
        nproc_total += len(runs)
        base = runs[0]
        for j, r in enumerate(base):
            key_ = ss.case_key(r["case"])
            o = r["obs"]
            kd = ss.outcome_kind(o["outcome"])
            res.count([key_, tag], kd == "unsat" or (kd == "sat" and len(o["outcome"]["sat"]) >= 3))
            res.sample({"problem": r["case"]["p"], "outcome": o["outcome"], "message": (o.get("conflict") or {}).get("msg")}, limit=2)
            if r.get("repeat_equal") is False:
                res.violation(key_, f"two fresh solver instances in one process gave different results ({tag})",
                              {"case": r["case"], "stream": tag})
            for pi, other in enumerate(runs[1:], 1):
                if pi >= nproc:
                    # release build: panics aside the answer must be the same too
                    pass
                o2 = other[j]["obs"]
                if o2["outcome"] != o["outcome"] or (o2.get("conflict") or {}).get("msg") != (o.get("conflict") or {}).get("msg") \
                        or (o2.get("conflict") or {}).get("graphviz") != (o.get("conflict") or {}).get("graphviz") \
                        or (o2.get("conflict") or {}).get("graphviz_simplified") != (o.get("conflict") or {}).get("graphviz_simplified") \
                        or (o2.get("conflict") or {}).get("graph") != (o.get("conflict") or {}).get("graph"):
                    res.violation(key_, f"process {pi} gave a different solution order / conflict message than process 0 ({tag}): "
                                  f"{o['outcome']} vs {o2['outcome']}", {"case": r["case"], "stream": tag,
                                                                          "process0": o["outcome"], "other": o2["outcome"],
                                                                          "msg0": (o.get("conflict") or {}).get("msg"),
                                                                          "msg_other": (o2.get("conflict") or {}).get("msg")})
                    break
                if other[j].get("repeat_equal") is False:
                    res.violation(key_, f"two fresh solver instances in one process gave different results ({tag}, process {pi})",
                                  {"case": r["case"], "stream": tag})
                    break
    # ---- capturing a DependencySnapshot: the order in which the provider is queried must not depend on hash seeds (a
    # provider that numbers its ids on first use would otherwise hand out other ids, and the snapshot would prefer other
    # union members)
    if not replay or capture_replay:
        bs = os.path.join(vlib.cargo_build("debug", hooks=True, bins=["snapshot_cases"]), "snapshot_cases")
        if replay:
            spec = json.load(open(replay))["replay"]["spec"]
            tmp = os.path.join(vlib.OUT, "c06_capture_spec.json")
            json.dump(spec, open(tmp, "w"))
            snaps, _ = vlib.run_harness(bs, ["--replay", tmp])
        else:
            snaps, _ = vlib.run_harness(bs, ["--seed", str(seed + 5), "--count", str(300 if tier == "quick" else 6000)])
        n_union_caps = 0
        for c in snaps:
            if c.get("capture") != "ok":
                continue
            multi = any(len(x) >= 2 for x in c["spec"]["u"].get("unions", []))
            n_union_caps += multi
            res.count(["capture", c["spec"].get("id"), c["spec"]["u"]], multi)
            if c.get("capture_order_stable") is False:
                res.violation(f"capture-{c['spec'].get('id')}", "DependencySnapshot::from_provider queried the same deterministic provider in "
                              "different orders in two captures of one process (the order follows the iteration of a hash set): for a "
                              "provider that numbers its ids on first use the snapshot, and the solution found through it, depend on "
                              "the hash seed", {"kind": "capture_order", "spec": c["spec"], "two_orders": c.get("capture_order")})
        res.extra["snapshot_captures_compared_4_times"] = len(snaps)
        res.extra["of_which_with_a_union_of_two_or_more_members"] = n_union_caps
    res.rule = (f"every case is solved in {nproc} separate debug processes and 2 release processes (per-process ahash seeds), twice per "
                "process with fresh solvers; solution ORDER, conflict graph, graphviz (plain and simplified) and message text are "
                "compared exactly; non-trivial = Unsolvable (message compared) or solution of >= 3 solvables; plus seeded universes captured with "
                "DependencySnapshot::from_provider four times each: the sequence of provider calls must be the same (non-trivial: a union "
                "with >= 2 members)")
    res.extra.update({"processes": nproc_total, "census_sites": len(now), "census_sites_gone": gone})
    return res.finish(CHECKER, vlib.TRUSTED_BASE,
                      ["the provider is deterministic and non-yielding (sync) or self-waking (yield)",
                       "order-independence of ConflictGraph::simplify is a theorem of the renderer model (Conflict/Render.v) once that file is built"])
