"""C11: independent metadata requests are issued concurrently."""
import vlib
from props import asynclib as al, solverstream as ss, enctie

THEOREMS = ["C11_eager_checker", "C11_model_eager"]
CHECKER = ("coqc Props/C11.v + Print Assumptions; harness async_cases --kind c11: schedule-controlled executor logs every "
           "quiescent point (solve future Pending without self-wake) -> extracted eagerb on the history; harness solve_cases under "
           "gated schedules on fan-out universes with hook log -> extracted enc_run follows the logged completions: clause database "
           "equal clause for clause (tie of C11_model_eager)")


def run(res, tier, seed, replay):
    vlib.proof_gate(res, "C11", THEOREMS)
    k = 1 if tier == "quick" else 25
    if replay:
        recs, hangs = al.replay_async("c11", replay)
    else:
        streams = [("fanout", 88, 200 * k), ("fanout", 80, 100 * k), ("small", 255, 150 * k), ("conflict", 127, 80 * k)]
        recs, hangs = al.run_async("c11", streams, seed + 79)
    al.judge(recs)
    if replay:
        erecs = []
    else:
        estreams = [("fanout", 88, "gated:fifo", "debug", 60 * k), ("fanout", 88, "gated:lifo", "debug", 60 * k),
                    ("fanout", 80, "gated:random", "debug", 60 * k), ("small", 255, "gated:random", "debug", 100 * k)]
        erecs, eh = ss.run_streams(estreams, seed + 83, dump=True)
        hangs += eh
    enctie.annotate(erecs)
    for r in erecs:
        if "enc" not in r:
            continue
        res.count([ss.case_key(r["case"]), r["stream"], "enc"], r["enc"].get("n_calls", 0) >= 6)
        if not enctie.ok(r, ("db", "calls", "done")):
            res.tie_break(f"encoder correspondence no longer checks under {r['stream']}: the implementation's clause database / "
                          f"requests differ from the model following the logged completions, or a future was still pending when encode "
                          f"returned (theorem C11_model_eager): {r['enc']}", enctie.replay(r))
    nq, maxpend = 0, 0
    for r in recs:
        key = ss.case_key(r["case"])
        for run in r["runs"]:
            qs = [c["q"] for c in run["calls"] if isinstance(c, dict) and "q" in c]
            nq += len(qs)
            widest = max([0] + [len(q) for q in qs])
            maxpend = max(maxpend, widest)
            res.count([key, run["label"]], widest >= 3)
            res.sample({"problem": r["case"]["p"], "pending_at_quiescent_points": qs[:6]}, limit=2)
            if any(al.okind(s["outcome"]) in ("panic", "deadlock", "hang") for s in run["solves"]):
                continue
            if not run["eager"]:
                res.violation(key, f"at a quiescent point a candidates request implied by received dependency information had not been "
                              f"issued ({run['label']}, pending sets {qs[:4]})", al.replay_obj(r, run))
    res.rule = ("fan-out universes (2-16 root requirements on distinct packages, unions, nested fan-outs, hints) plus general ones, "
                "under FIFO / LIFO / random completion orders; non-trivial = run with a quiescent point at which >= 3 requests are in flight")
    res.extra.update({"quiescent_points": nq, "max_in_flight": maxpend, "hangs": len(hangs)}, **enctie.stats(erecs))
    return res.finish(CHECKER, vlib.TRUSTED_BASE,
                      ["partial by nature: says nothing about wall-clock overlap inside the provider",
                       "only first solves on fresh solvers (cached dependency information of earlier solves is not visible in the history)"])
