"""Shared by C09-C13: provider-call histories of the real solver judged by the
extracted history checkers (Async/History.v)."""
import os, json
import vlib
from props import solverstream as ss

NOHINT = 255 & ~8


def run_async(kind, streams, seed, extra=None, timeout=3000):
    """streams: (class, feat, count). Returns list of {case, runs}."""
    b = os.path.join(vlib.cargo_build("debug", hooks=True, bins=["async_cases"]), "async_cases")
    import concurrent.futures as cf
    jobs = []
    for i, (cls, feat, count) in enumerate(streams):
        nshard = max(1, min(vlib.NCPU, count // 40))
        per = (count + nshard - 1) // nshard
        for k in range(nshard):
            n = min(per, count - k * per)
            if n > 0:
                jobs.append(["--kind", kind, "--class", cls, "--feat", str(feat), "--seed", str(seed * 100 + i),
                             "--count", str(n), "--skip", str(k * per)] + (extra or []))
    out, hangs = [], []

    def one(a):
        return vlib.run_harness(b, a, timeout=timeout)
    with cf.ThreadPoolExecutor(max_workers=vlib.NCPU) as ex:
        for r, h in ex.map(one, jobs):
            out += r
            hangs += h
    return out, hangs


def replay_async(kind, path, extra=None):
    b = os.path.join(vlib.cargo_build("debug", hooks=True, bins=["async_cases"]), "async_cases")
    j = json.load(open(path))
    case = j["replay"]["case"] if "replay" in j else j["case"]
    tmp = os.path.join(vlib.OUT, "async_replay.jsonl")
    os.makedirs(vlib.OUT, exist_ok=True)
    open(tmp, "w").write(json.dumps(case) + "\n")
    return vlib.run_harness(b, ["--kind", kind, "--cases", tmp] + (extra or []))


def hist_tokens(run):
    """history of one run as tokens (starts with HNext of the first problem)"""
    evs = [[0] + vlib.tok_problem(run["solves"][0]["p"])]
    si = 0
    for c in run["calls"]:
        if c == "n":
            si += 1
            if si < len(run["solves"]):
                evs.append([0] + vlib.tok_problem(run["solves"][si]["p"]))
            else:
                break
        elif "c" in c:
            evs.append([1, c["c"]])
        elif "ce" in c:
            evs.append([2, c["ce"]])
        elif "d" in c:
            evs.append([3, c["d"]])
        elif "de" in c:
            evs.append([4, c["de"]])
        elif "p" in c:
            evs.append([5, 1 if c["p"][1] else 0])
        elif "q" in c:
            evs.append([6])
    t = [len(evs)]
    for e in evs:
        t += e
    return t


def judge(recs, want_exact=False):
    """annotate every run with flags causal/once/eager/quiet (+ exact)"""
    lines = []
    for i, r in enumerate(recs):
        ut = vlib.tok_universe(r["case"]["u"])
        for j, run in enumerate(r["runs"]):
            lines.append(f"hist {i}.{j} " + vlib.toks(ut, hist_tokens(run)))
            if want_exact and len(run["solves"]) == 1:
                lines.append(f"exact x{i}.{j} " + vlib.toks(ut, vlib.tok_problem(run["solves"][0]["p"]), hist_tokens(run)))
    out = vlib.oracle(lines)
    for k, v in out.items():
        if v.startswith("error"):
            raise vlib.CheckError("oracle error: " + v)
        ex = k.startswith("x")
        i, j = k.lstrip("x").split(".")
        run = recs[int(i)]["runs"][int(j)]
        if ex:
            run["exact"] = None if v == "none" else v == "1"
        else:
            a, b, c, d = v.split()
            run.update({"causal": a == "1", "once": b == "1", "eager": c == "1", "quiet": d == "1"})


def okind(o):
    return o if isinstance(o, str) else next(iter(o))


def _seg_tokens(calls):
    evs = []
    for c in calls:
        if not isinstance(c, dict):
            continue
        if "c" in c:
            evs.append([1, c["c"]])
        elif "ce" in c:
            evs.append([2, c["ce"]])
        elif "d" in c:
            evs.append([3, c["d"]])
        elif "de" in c:
            evs.append([4, c["de"]])
    t = [len(evs)]
    for e in evs:
        t += e
    return t


def judge_later_solves(recs):
    """exactness of the 2nd, 3rd .. solve of multi-solve runs: run['exact_next'] = {solve index: True/False/None}"""
    lines = []
    for i, r in enumerate(recs):
        ut = vlib.tok_universe(r["case"]["u"])
        for j, run in enumerate(r["runs"]):
            if len(run["solves"]) < 2:
                continue
            segs, cur = [], []
            for c in run["calls"]:
                if c == "n":
                    segs.append(cur)
                    cur = []
                else:
                    cur.append(c)
            segs.append(cur)
            for k in range(1, min(len(segs), len(run["solves"]))):
                if okind(run["solves"][k]["outcome"]) != "sat":
                    continue
                prev = [c for seg in segs[:k] for c in seg]
                lines.append(f"exactn {i}.{j}.{k} " + vlib.toks(ut, vlib.tok_problem(run["solves"][k]["p"]), _seg_tokens(prev), _seg_tokens(segs[k])))
    out = vlib.oracle(lines)
    for key, v in out.items():
        if v.startswith("error"):
            raise vlib.CheckError("oracle error: " + v)
        i, j, k = [int(x) for x in key.split(".")]
        run = recs[i]["runs"][j]
        run.setdefault("exact_next", {})[k] = None if v == "none" else v == "1"


def replay_obj(r, run):
    return {"case": r["case"], "run": {"label": run["label"], "mode": run["mode"], "solves": run["solves"], "sched": run.get("sched"),
                                       "calls": run["calls"][:400]},
            "how": "./check <prop> --replay <this file> re-runs every schedule / cancellation point of this case"}


def ref_for(recs):
    """verdict reference + validity for every (universe, problem) solved in any run"""
    fake = []
    for r in recs:
        for run in r["runs"]:
            for s in run["solves"]:
                fake.append({"case": {"u": r["case"]["u"], "p": s["p"]}, "obs": {"outcome": s["outcome"]}, "stream": run["label"], "_s": s})
    ref = ss.oracle_ref(fake)
    ss.oracle_sat(fake)
    for f in fake:
        f["_s"]["ref_solvable"] = ref[f["key"]]["solvable"]
        if "valid" in f:
            f["_s"]["valid"] = f["valid"]
