#!/bin/sh
# Line / region coverage of the solver sources reached by the generator classes (not a check: a
# measurement of generator quality; needs the nightly toolchain's llvm-tools). Scratch in /root/cov.
set -e
T=$(dirname $(find ~/.rustup/toolchains/nightly-x86_64-unknown-linux-gnu -name llvm-profdata | head -1))
mkdir -p /root/cov && cd "$(dirname "$0")/../harness"
CARGO_NET_OFFLINE=true RUSTFLAGS="-C instrument-coverage --cap-lints warn" CARGO_TARGET_DIR=/root/cov/target \
  cargo +nightly build --offline -q --features hooks --bin solve_cases
cd /root/cov && rm -f *.profraw
for cfg in "small 255 sync" "dense 255 sync" "conflict 255 sync" "conflictx 255 sync" "softdeep 255 sync" "greedy 29 sync" \
           "small 255 yield" "conflict 255 gated lifo" "fanout 88 gated random"; do
  set -- $cfg; extra=""; [ -n "$4" ] && extra="--policy $4"
  LLVM_PROFILE_FILE="/root/cov/p_%p_%m.profraw" /root/cov/target/debug/solve_cases --class $1 --feat $2 --mode $3 \
    --seed 77 --count ${COUNT:-1500} --skip 0 $extra > /dev/null 2>&1
done
$T/llvm-profdata merge -sparse *.profraw -o cov.profdata
$T/llvm-cov report /root/cov/target/debug/solve_cases -instr-profile=cov.profdata /repo/src/solver/*.rs /repo/src/conflict.rs
echo "uncovered lines: $T/llvm-cov show /root/cov/target/debug/solve_cases -instr-profile=/root/cov/cov.profdata <file>"
