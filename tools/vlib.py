"""Shared machinery for ./check: builds, runs, oracles, evidence, verdicts."""
import json, os, re, subprocess, sys, time, hashlib, shutil

ROOT = os.path.dirname(os.path.dirname(os.path.abspath(__file__)))
REPO = os.environ.get("VERIF_REPO", "/repo")
BUILD = os.path.join(ROOT, ".build")
COQ = os.path.join(ROOT, "coq")
# VERIF_TAG: run against a scratch copy of the repository (VERIF_REPO) without touching the
# real build caches, evidence or replay directories (used for seeded-change experiments only)
TAG = os.environ.get("VERIF_TAG", "")
OUT = os.path.join(ROOT, "out", TAG) if TAG else os.path.join(ROOT, "out")
CARGO_TARGET = os.path.join(BUILD, "cargo_" + TAG) if TAG else os.path.join(BUILD, "cargo")
EVIDENCE_DIR = os.path.join(OUT, "evidence") if TAG else os.path.join(ROOT, "evidence")
NCPU = os.cpu_count() or 4

ENV = dict(os.environ, CARGO_NET_OFFLINE="true", CARGO_TARGET_DIR=CARGO_TARGET)

FORBIDDEN = re.compile(
    r"\b(Admitted|admit|Axiom|Axioms|Parameter|Parameters|Conjecture|Conjectures|"
    r"Unset Guard|bypass_check|Admit Obligations|type-in-type|impredicative-set)\b")

# axioms allowed in Print Assumptions output, per the trusted base in DESIGN.md
ALLOWED_AXIOMS = set()


class CheckError(Exception):
    pass


def log(*a):
    print("[check]", *a, file=sys.stderr, flush=True)


def sh(cmd, cwd=None, timeout=1800, env=None, check=True, input=None):
    p = subprocess.run(cmd, cwd=cwd, env=env or ENV, timeout=timeout, input=input,
                       stdout=subprocess.PIPE, stderr=subprocess.STDOUT, text=True,
                       shell=isinstance(cmd, str))
    if check and p.returncode != 0:
        raise CheckError(f"command failed ({p.returncode}): {cmd}\n{p.stdout[-4000:]}")
    return p


# ----------------------------------------------------------------- Coq

def coq_sources():
    out = []
    for d, _, fs in os.walk(COQ):
        if "/Replay" in d:
            continue
        for f in fs:
            if f.endswith(".v"):
                out.append(os.path.join(d, f))
    return sorted(out)


def strip_comments(src):
    # remove (nested) Coq comments
    out, depth, i = [], 0, 0
    while i < len(src):
        if src.startswith("(*", i):
            depth += 1
            i += 2
        elif src.startswith("*)", i) and depth > 0:
            depth -= 1
            i += 2
        else:
            if depth == 0:
                out.append(src[i])
            i += 1
    return "".join(out)


def scan_forbidden():
    """Admitted / Axiom / ... anywhere in the development is a broken proof."""
    bad = []
    for f in coq_sources():
        code = strip_comments(open(f).read())
        for m in FORBIDDEN.finditer(code):
            line = code[:m.start()].count("\n") + 1
            bad.append(f"{os.path.relpath(f, ROOT)}:{line}: {m.group(0)}")
    return bad


def coq_make(targets=None, timeout=3000):
    """Full .vo build of the requested targets (default: all)."""
    if not os.path.exists(os.path.join(COQ, "Makefile")) or \
            os.path.getmtime(os.path.join(COQ, "Makefile")) < os.path.getmtime(os.path.join(COQ, "_CoqProject")):
        sh(["coq_makefile", "-f", "_CoqProject", "-o", "Makefile"], cwd=COQ)
    cmd = ["make", f"-j{NCPU}"] + (targets or [])
    p = sh(cmd, cwd=COQ, timeout=timeout, check=False)
    return p.returncode == 0, p.stdout


def coqc_file(path, timeout=600):
    p = sh(["coqc", "-noglob", "-Q", COQ, "Resolvo", path], cwd=os.path.dirname(path),
           timeout=timeout, check=False)
    return p.returncode == 0, p.stdout


def replay_dir(prop):
    d = os.path.join(COQ, "Replay", (TAG + "_" if TAG else "") + prop)
    os.makedirs(d, exist_ok=True)
    return d


def check_theorems(prop, theorems):
    """Every listed theorem of Props/<prop>.v exists and depends on no axiom
    outside the allow-list. Returns (n_ok, failures)."""
    d = replay_dir(prop)
    path = os.path.join(d, f"assumptions_{prop}.v")
    with open(path, "w") as f:
        f.write(f"From Resolvo Require Import Props.{prop}.\n")
        for t in theorems:
            f.write(f'Goal True. idtac "@@ {t}". exact I. Qed.\nPrint Assumptions {t}.\n')
    ok, out = coqc_file(path)
    if not ok:
        return 0, [f"Props/{prop}.v theorems do not check: {out[-1500:]}"]
    fails, n_ok = [], 0
    chunks = out.split("@@ ")[1:]
    seen = {}
    for ch in chunks:
        name, _, rest = ch.partition("\n")
        seen[name.strip()] = rest
    for t in theorems:
        rest = seen.get(t)
        if rest is None:
            fails.append(f"{t}: no Print Assumptions output")
            continue
        if "Closed under the global context" in rest:
            n_ok += 1
            continue
        axioms = re.findall(r"^([A-Za-z_][\w.']*)\s*:", rest, re.M)
        extra = [a for a in axioms if a not in ALLOWED_AXIOMS]
        if extra:
            fails.append(f"{t}: depends on axioms {extra}")
        else:
            n_ok += 1
    return n_ok, fails


# ----------------------------------------------------------------- Rust / OCaml

def harness_dir():
    """the harness crate; for a scratch repository a copy whose path dependency points there"""
    hdir = os.path.join(ROOT, "harness")
    if not TAG:
        return hdir
    alt = os.path.join(BUILD, "harness_" + TAG)
    os.makedirs(alt, exist_ok=True)
    for root, dirs, files in os.walk(hdir):
        rel = os.path.relpath(root, hdir)
        os.makedirs(os.path.join(alt, rel), exist_ok=True)
        for f in files:
            src, dst = os.path.join(root, f), os.path.join(alt, rel, f)
            data = open(src, "rb").read()
            if f == "Cargo.toml":
                data = data.replace(b'path = "/repo"', ('path = "%s"' % REPO).encode())
            if f == "config.toml":
                data = data.replace(b"/verif/.build/cargo", CARGO_TARGET.encode())
            if not os.path.exists(dst) or open(dst, "rb").read() != data:
                open(dst, "wb").write(data)
    return alt


def cargo_build(profile="debug", hooks=True, bins=None, timeout=1800):
    hdir = harness_dir()
    # keep the lock file and toolchain in step with the repository
    for f in ("Cargo.lock", "rust-toolchain"):
        src, dst = os.path.join(REPO, f), os.path.join(hdir, f)
        if f == "rust-toolchain" and os.path.exists(src):
            if not os.path.exists(dst) or open(src).read() != open(dst).read():
                shutil.copy(src, dst)
    cmd = ["cargo", "build", "--offline", "-q"]
    if profile == "release":
        cmd.append("--release")
    if hooks:
        cmd += ["--features", "hooks"]
    for b in bins or []:
        cmd += ["--bin", b]
    p = sh(cmd, cwd=hdir, timeout=timeout, check=False)
    if p.returncode != 0:
        raise CheckError("harness does not build against the current /repo tree:\n" + p.stdout[-3000:])
    return os.path.join(CARGO_TARGET, profile)


def ocaml_build():
    drv = os.path.join(ROOT, "ocaml", "_build", "driver")
    srcs = [os.path.join(ROOT, "ocaml", "driver.ml"), os.path.join(COQ, "Extract.v")] + coq_sources()
    if os.path.exists(drv) and all(os.path.getmtime(s) <= os.path.getmtime(drv) for s in srcs):
        return drv
    sh([os.path.join(ROOT, "ocaml", "build.sh")], timeout=900)
    return drv


class HarnessCrash(CheckError):
    def __init__(self, msg, completed, returncode):
        super().__init__(msg)
        self.completed, self.returncode = completed, returncode


def run_harness(binpath, args, timeout=3000, count_key="--count", skip_key="--skip"):
    """Runs a harness binary that prints JSON lines; restarts after a hung case."""
    recs, hangs = [], []
    args = list(args)
    total = int(args[args.index(count_key) + 1]) if count_key in args else None
    skip0 = int(args[args.index(skip_key) + 1]) if skip_key in args else 0
    done = 0
    while True:
        a = list(args)
        if total is not None:
            def setv(k, v):
                if k in a:
                    a[a.index(k) + 1] = str(v)
                else:
                    a.extend([k, str(v)])
            setv(count_key, total - done)
            setv(skip_key, skip0 + done)
        p = subprocess.run([binpath] + a, env=ENV, timeout=timeout, stdout=subprocess.PIPE,
                           stderr=subprocess.PIPE, text=True)
        n_here = 0
        hung = None
        for line in p.stdout.splitlines():
            if not line.strip():
                continue
            try:
                r = json.loads(line)
            except Exception:
                continue
            if "hang" in r and len(r) == 1:
                hung = r["hang"]
                continue
            recs.append(r)
            n_here += 1
        if p.returncode == 3 and hung is not None and total is not None:
            hangs.append(hung)
            done += n_here + 1
            if done >= total:
                break
            continue
        if p.returncode < 0:
            raise HarnessCrash(f"harness {os.path.basename(binpath)} was killed by signal {-p.returncode} after {len(recs)} "
                               f"records: {p.stderr[-1500:]}", len(recs), p.returncode)
        if p.returncode != 0:
            raise CheckError(f"harness {os.path.basename(binpath)} exited {p.returncode}: {p.stderr[-2000:]}")
        break
    return recs, hangs


# ----------------------------------------------------------------- token / Coq term serialisation

def tok_list(l):
    return [len(l)] + list(l)


def tok_req(r):
    return [0, r["s"]] if "s" in r else [1, r["u"]]


def tok_universe(u):
    t = [len(u["sols"])]
    for s in u["sols"]:
        t += [s["name"], s["rank"]]
        if s["deps"] is None:
            t.append(0)
        else:
            t.append(1)
            t.append(len(s["deps"]["reqs"]))
            for r in s["deps"]["reqs"]:
                t += tok_req(r)
            t += tok_list(s["deps"]["cons"])
    t.append(len(u["vss"]))
    for v in u["vss"]:
        t += [v["name"]] + tok_list(v["matching"])
    t.append(len(u["unions"]))
    for x in u["unions"]:
        t += tok_list(x)
    t.append(len(u["pkgs"]))
    for k in u["pkgs"]:
        t.append(1 if k["missing"] else 0)
        t += tok_list(k["cands"])
        t.append(0 if k["favored"] is None else k["favored"] + 1)
        t.append(0 if k["locked"] is None else k["locked"] + 1)
        t += tok_list(k["excluded"])
        h = k["hint"]
        if h == "none":
            t.append(0)
        elif h == "all":
            t.append(1)
        else:
            t.append(2)
            t += tok_list(h["some"])
    return t


def tok_problem(p):
    t = [len(p["reqs"])]
    for r in p["reqs"]:
        t += tok_req(r)
    t += tok_list(p["cons"]) + tok_list(p["soft"])
    return t


def coq_nlist(l):
    return "[" + "; ".join(str(x) for x in l) + "]"


def coq_req(r):
    return f"RSingle {r['s']}" if "s" in r else f"RUnion {r['u']}"


def coq_opt(x):
    return "None" if x is None else f"(Some {x})"


def coq_universe(u):
    sols = []
    for s in u["sols"]:
        if s["deps"] is None:
            d = "Unknown"
        else:
            d = "(Known [" + "; ".join(coq_req(r) for r in s["deps"]["reqs"]) + "] " + coq_nlist(s["deps"]["cons"]) + ")"
        sols.append(f"mkSol {s['name']} {s['rank']} {d}")
    vss = [f"mkVs {v['name']} {coq_nlist(v['matching'])}" for v in u["vss"]]
    unions = [coq_nlist(x) for x in u["unions"]]
    pkgs = []
    for k in u["pkgs"]:
        h = k["hint"]
        hs = "HNone" if h == "none" else "HAll" if h == "all" else f"(HSome {coq_nlist(h['some'])})"
        pkgs.append(f"mkPkg {'true' if k['missing'] else 'false'} {coq_nlist(k['cands'])} "
                    f"{coq_opt(k['favored'])} {coq_opt(k['locked'])} {coq_nlist(k['excluded'])} {hs}")
    j = lambda xs: "[" + ";\n      ".join(xs) + "]"
    return f"(mkU {j(sols)}\n     {j(vss)}\n     {j(unions)}\n     {j(pkgs)})"


def coq_problem(p):
    return ("(mkProblem [" + "; ".join(coq_req(r) for r in p["reqs"]) + "] " +
            coq_nlist(p["cons"]) + " " + coq_nlist(p["soft"]) + ")")


def oracle(lines, timeout=3000):
    """lines: list of 'cmd id tokens...' strings -> dict id -> result string.
    Sharded over the available cores."""
    drv = ocaml_build()
    if not lines:
        return {}
    nshard = min(NCPU, max(1, len(lines) // 50))
    shards = [lines[i::nshard] for i in range(nshard)]
    procs = []
    for sh_ in shards:
        p = subprocess.Popen([drv], stdin=subprocess.PIPE, stdout=subprocess.PIPE, text=True)
        procs.append((p, "\n".join(sh_) + "\n"))
    # feed + collect (communicate sequentially is fine: each is independent)
    import threading
    res = {}
    outs = [None] * len(procs)

    def work(i):
        p, data = procs[i]
        outs[i] = p.communicate(data, timeout=timeout)[0]
    ths = [threading.Thread(target=work, args=(i,)) for i in range(len(procs))]
    for t in ths:
        t.start()
    for t in ths:
        t.join()
    for o in outs:
        for line in (o or "").splitlines():
            i, _, r = line.partition(" ")
            res[i] = r
    return res


def toks(*parts):
    return " ".join(str(x) for part in parts for x in part)


# ----------------------------------------------------------------- known findings

def known_findings():
    path = os.path.join(ROOT, "known_findings.txt")
    out = []
    if os.path.exists(path):
        for line in open(path):
            line = line.strip()
            m = re.match(r"finding:\s+property=(\S+)\s+key=(\S+)\s+(.*)", line)
            if m:
                out.append({"property": m.group(1), "key": m.group(2), "what": m.group(3)})
    return out


# ----------------------------------------------------------------- result / evidence

class Result:
    def __init__(self, prop, tier, seed):
        self.prop, self.tier, self.seed = prop, tier, seed
        self.t0 = time.time()
        self.violations = []      # (key, description, replay object, has_input)
        self.known_hits = []
        self.obligations = 0
        self.discharged = 0
        self.evaluations = 0
        self.nontrivial = set()
        self.samples = []
        self.extra = {}
        self.rule = ""
        self.tie_breaks = []      # (what, replay object)
        self.theorems = []
        self.classes = {}

    def count(self, key_obj, nontrivial):
        self.evaluations += 1
        if nontrivial:
            self.nontrivial.add(hashlib.sha1(json.dumps(key_obj, sort_keys=True).encode()).hexdigest())

    def sample(self, obj, limit=3):
        if len(self.samples) < limit:
            self.samples.append(obj)

    def violation(self, key, desc, replay):
        """A concrete failing input: an oracle rejected an implementation output."""
        self.violations.append((key, desc, replay, True))
        cls = re.sub(r"\d+", "N", desc)[:70]
        self.classes[cls] = self.classes.get(cls, 0) + 1

    def tie_break(self, what, replay):
        """A proof / correspondence no longer checks and no failing input was found."""
        self.tie_breaks.append((what, replay))

    def obligation(self, ok, what=None, replay=None):
        self.obligations += 1
        if ok:
            self.discharged += 1
        elif what:
            self.tie_break(what, replay or {"obligation": what})

    def finish(self, checker_cmd, trusted_base, assumptions):
        known = [k for k in known_findings() if k["property"] == self.prop]
        code = 0
        os.makedirs(os.path.join(OUT, "replay", self.prop), exist_ok=True)
        reported = 0
        seen_known = set()
        for key, desc, replay, _ in self.violations:
            hit = next((k for k in known if k["key"] == key), None)
            if hit:
                if key not in seen_known:
                    print(f"KNOWN-FINDING: property={self.prop} {hit['what']}")
                    seen_known.add(key)
                continue
            reported += 1
            if reported > 5:
                continue
            path = os.path.join(OUT, "replay", self.prop, f"{key}.json")
            with open(path, "w") as f:
                json.dump({"property": self.prop, "what": desc, "replay": replay}, f, indent=1)
            print(f"VIOLATION property={self.prop} replay={path}")
            log(desc)
            code = 1
        if reported == 0:
            for i, (what, replay) in enumerate(self.tie_breaks[:5]):
                path = os.path.join(OUT, "replay", self.prop, f"tie_break_{i}.json")
                with open(path, "w") as f:
                    json.dump({"property": self.prop, "no_longer_checks": what, "detail": replay}, f, indent=1)
                print(f"VIOLATION property={self.prop} replay={path} no-failing-input-found")
                log(what)
                code = 1
        ev = {
            "property_id": self.prop,
            "tier": self.tier,
            "seed": self.seed,
            "level": "proof",
            "coverage": dict({
                "obligations": self.obligations,
                "discharged": self.discharged,
                "checker_cmd": checker_cmd,
                "trusted_base": trusted_base,
                "theorems": self.theorems,
                "evaluations": self.evaluations,
                "distinct_nontrivial": len(self.nontrivial),
                "rule": self.rule,
                "samples": self.samples or [{"note": "no cases generated"}],
                "violation_classes": self.classes,
            }, **self.extra),
            "assumptions": assumptions,
            "wall_s": round(time.time() - self.t0, 2),
            "violations": reported + (len(self.tie_breaks) if reported == 0 else 0),
        }
        os.makedirs(EVIDENCE_DIR, exist_ok=True)
        with open(os.path.join(EVIDENCE_DIR, f"{self.prop}.json"), "w") as f:
            json.dump(ev, f, indent=1)
        return code


TRUSTED_BASE = [
    "Coq 8.16.1 kernel incl. vm_compute (no native_compute)",
    "axioms: none (Print Assumptions of every property theorem: Closed under the global context)",
    "extraction ExtrOcamlBasic (bool/option/unit/list/prod/sumbool/sumor -> OCaml), OCaml 4.13.1, ocaml/driver.ml (parsing/printing; two unverified list comparisons for asynchronous / second-solve call multisets)",
    "hand-written model <-> code relation: tied per run by the correspondence / trace check named in checker_cmd",
    "harness: harness/src (table provider, generators, schedulers), tools/vlib.py serialisers",
    "verif-hooks emit sites in /repo (feature off by default): decision_tracker.rs (3), solver/mod.rs verif_dump + SoftRegister + AnalyzeUnsolvable + Decide + Propagate + PropagateResult events and the initial watches recorded in Clauses::alloc, solver/encoding.rs Encode + TaskDone + EncodeResult events, negative assertions in the dump, conflict.rs verif_clauses",
]


def coqchk(prop, timeout=1800):
    """independent re-check of the compiled property file and everything it depends on"""
    p = sh(["coqchk", "-silent", "-o", "-Q", ".", "Resolvo", f"Resolvo.Props.{prop}"], cwd=COQ, timeout=timeout, check=False)
    m = re.search(r"\* Axioms:(.*?)\n\s*\n", p.stdout + "\n\n", re.S)
    axioms = " ".join(m.group(1).split()) if m else "?"
    return p.returncode == 0 and axioms == "<none>", axioms


def proof_gate(res, prop, theorems, targets=None):
    """Steps 1 of the protocol: forbidden-word scan, build, assumptions."""
    bad = scan_forbidden()
    res.obligation(not bad, "forbidden construct in Coq sources: " + "; ".join(bad[:5]) if bad else None)
    ok, out = coq_make(targets or [f"Props/{prop}.vo"])
    res.obligation(ok, None if ok else "Coq development no longer builds: " + out[-1500:])
    if ok:
        n_ok, fails = check_theorems(prop, theorems)
        res.theorems = theorems
        for _ in range(n_ok):
            res.obligation(True)
        for f in fails:
            res.obligation(False, f)
        if res.tier == "thorough" and not TAG:
            okc, axioms = coqchk(prop)
            res.extra["coqchk_axioms"] = axioms
            res.obligation(okc, None if okc else f"coqchk does not accept Props/{prop}.vo or reports axioms: {axioms}")
    return ok


# ----------------------------------------------------------------- hook logs -> tokens

def tok_var(v):
    if v == "r":
        return [0]
    if "s" in v:
        return [1, v["s"]]
    return [2, v["h"][0], v["h"][1]]


def tok_lit(l):
    return tok_var(l[0]) + [1 if l[1] else 0]


def tok_clause(c):
    k = c["kind"]
    if k == "root":
        t = [0]
    elif "req" in k:
        q = k["req"]
        t = [1] + tok_var(q["parent"]) + tok_req(q["req"]) + [len(q["cands"])]
        for cl in q["cands"]:
            t += [len(cl)] + [x["s"] for x in cl]
    elif "forbid" in k:
        t = [2, k["forbid"]["name"]]
    elif "con" in k:
        q = k["con"]
        t = [3] + tok_var(q["parent"]) + [q["forbidden"]["s"], q["vs"]]
    elif "lock" in k:
        q = k["lock"]
        t = [4, q["locked"]["s"], q["other"]["s"]]
    elif "excl" in k:
        q = k["excl"]
        t = [5, q["var"]["s"] if q["var"] != "r" else 0, q["reason"]]
    else:
        t = [6] + tok_list(k["learnt"]["why"])
    t.append(len(c["lits"]))
    for l in c["lits"]:
        t += tok_lit(l)
    return t


def tok_log(d):
    t = [len(d["clauses"])]
    for c in d["clauses"]:
        t += tok_clause(c)
    evs = []
    for e in d["events"]:
        if e == "ul":
            evs.append([1])
        elif "a" in e:
            a = e["a"]
            evs.append([0] + tok_var(a["var"]) + [1 if a["value"] else 0, a["reason"]])
        elif "uu" in e:
            if e["uu"] == 0:
                evs.append([2])
    t.append(len(evs))
    for e in evs:
        t += e
    t.append(len(d["trail"]))
    for x in d["trail"]:
        t += tok_var(x[0]) + [1 if x[1] else 0]
    return t
