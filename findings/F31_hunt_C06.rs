// Hunting sub-agent's test file for C06 (second round). The test that demonstrates F31 is
//   snapshot_of_deterministic_provider_solves_differently_from_run_to_run   (needs --features serde)
// it fails before /repo 4f7b3bd and passes with it. The two second_solve_* tests document the warm-cache
// observation of DESIGN.md section 7 (a second solve on the SAME solver), which is not a violation of C06 as stated.
//! Hunt for violations of C06 (same problem, same answer).
#![allow(dead_code)]

use std::{
    any::Any,
    cell::RefCell,
    fmt::{Display, Write as _},
    panic::{AssertUnwindSafe, catch_unwind},
    rc::Rc,
};

use resolvo::{
    Candidates, Dependencies, DependencyProvider, HintDependenciesAvailable, Interner,
    KnownDependencies, NameId, Problem, Requirement, SolvableId, Solver, SolverCache, StringId,
    UnsolvableOrCancelled, VersionSetId, VersionSetUnionId,
};

// ---------------------------------------------------------------------------
// A completely deterministic, non-yielding provider over plain vectors. All ids
// are fixed when the universe is built; nothing depends on hashing.
// ---------------------------------------------------------------------------

#[derive(Clone, Debug)]
struct VS {
    name: u32,
    lo: u32,
    hi: u32, // matches lo <= v < hi
}

#[derive(Clone, Debug)]
enum Req {
    Single(u32),
    Union(u32),
}

#[derive(Clone, Debug)]
struct Sol {
    name: u32,
    ver: u32,
    reqs: Vec<Req>,
    cons: Vec<u32>,
    unknown: Option<u32>, // string id
}

#[derive(Clone, Debug)]
enum Hint {
    None,
    All,
    Some(Vec<u32>),
}

#[derive(Clone, Debug)]
struct Pkg {
    name: String,
    sols: Vec<u32>, // in listing order
    favored: Option<u32>,
    locked: Option<u32>,
    excluded: Vec<(u32, u32)>,
    hint: Hint,
    missing: bool, // get_candidates returns None
}

#[derive(Clone, Debug, Default)]
struct Universe {
    pkgs: Vec<Pkg>,
    sols: Vec<Sol>,
    vss: Vec<VS>,
    unions: Vec<Vec<u32>>,
    strings: Vec<String>,
    /// sort_candidates asks the solver cache for the dependencies of every
    /// candidate (like the conda provider does).
    sort_fetches_deps: bool,
}

impl Universe {
    fn pkg(&mut self, name: &str) -> u32 {
        if let Some(i) = self.pkgs.iter().position(|p| p.name == name) {
            return i as u32;
        }
        self.pkgs.push(Pkg {
            name: name.to_string(),
            sols: vec![],
            favored: None,
            locked: None,
            excluded: vec![],
            hint: Hint::None,
            missing: false,
        });
        (self.pkgs.len() - 1) as u32
    }
    fn vs(&mut self, name: u32, lo: u32, hi: u32) -> u32 {
        if let Some(i) = self
            .vss
            .iter()
            .position(|v| v.name == name && v.lo == lo && v.hi == hi)
        {
            return i as u32;
        }
        self.vss.push(VS { name, lo, hi });
        (self.vss.len() - 1) as u32
    }
    /// "a", "a 2", "a 1..3"
    fn spec(&mut self, s: &str) -> u32 {
        let mut it = s.split(' ');
        let name = it.next().unwrap();
        let name = self.pkg(name);
        match it.next() {
            None => self.vs(name, 0, u32::MAX),
            Some(r) => match r.split_once("..") {
                Some((a, b)) => self.vs(name, a.parse().unwrap(), b.parse().unwrap()),
                None => {
                    let a: u32 = r.parse().unwrap();
                    self.vs(name, a, a + 1)
                }
            },
        }
    }
    fn req(&mut self, s: &str) -> Req {
        let parts: Vec<&str> = s.split('|').map(str::trim).collect();
        if parts.len() == 1 {
            Req::Single(self.spec(parts[0]))
        } else {
            let v = parts.iter().map(|p| self.spec(p)).collect();
            self.unions.push(v);
            Req::Union((self.unions.len() - 1) as u32)
        }
    }
    fn add(&mut self, name: &str, ver: u32, reqs: &[&str], cons: &[&str]) -> u32 {
        let n = self.pkg(name);
        let reqs = reqs.iter().map(|r| self.req(r)).collect();
        let cons = cons.iter().map(|r| self.spec(r)).collect();
        self.sols.push(Sol {
            name: n,
            ver,
            reqs,
            cons,
            unknown: None,
        });
        let id = (self.sols.len() - 1) as u32;
        self.pkgs[n as usize].sols.push(id);
        id
    }
    fn string(&mut self, s: &str) -> u32 {
        if let Some(i) = self.strings.iter().position(|x| x == s) {
            return i as u32;
        }
        self.strings.push(s.to_string());
        (self.strings.len() - 1) as u32
    }
    fn sol(&self, name: &str, ver: u32) -> u32 {
        self.sols
            .iter()
            .position(|s| self.pkgs[s.name as usize].name == name && s.ver == ver)
            .unwrap() as u32
    }
    fn to_requirement(r: &Req) -> Requirement {
        match r {
            Req::Single(v) => Requirement::Single(VersionSetId(*v)),
            Req::Union(u) => Requirement::Union(VersionSetUnionId(*u)),
        }
    }
    fn describe(&self) -> String {
        let mut s = String::new();
        let vs = |v: u32| {
            let v = &self.vss[v as usize];
            if v.hi == u32::MAX && v.lo == 0 {
                format!("{}", self.pkgs[v.name as usize].name)
            } else {
                format!("{} {}..{}", self.pkgs[v.name as usize].name, v.lo, v.hi)
            }
        };
        for p in &self.pkgs {
            writeln!(
                s,
                "package {} (favored {:?}, locked {:?}, excluded {:?}, hint {:?}, missing {})",
                p.name, p.favored, p.locked, p.excluded, p.hint, p.missing
            )
            .unwrap();
            for &sid in &p.sols {
                let so = &self.sols[sid as usize];
                let reqs: Vec<String> = so
                    .reqs
                    .iter()
                    .map(|r| match r {
                        Req::Single(v) => vs(*v),
                        Req::Union(u) => self.unions[*u as usize]
                            .iter()
                            .map(|v| vs(*v))
                            .collect::<Vec<_>>()
                            .join(" | "),
                    })
                    .collect();
                let cons: Vec<String> = so.cons.iter().map(|v| vs(*v)).collect();
                writeln!(
                    s,
                    "  #{sid} {}={} requires {:?} constrains {:?} unknown {:?}",
                    p.name, so.ver, reqs, cons, so.unknown
                )
                .unwrap();
            }
        }
        s
    }
}

#[derive(Clone)]
struct P {
    u: Rc<Universe>,
    log: Rc<RefCell<Vec<String>>>,
}

impl P {
    fn new(u: &Rc<Universe>) -> Self {
        P {
            u: u.clone(),
            log: Default::default(),
        }
    }
}

impl Interner for P {
    fn display_solvable(&self, solvable: SolvableId) -> impl Display + '_ {
        let s = &self.u.sols[solvable.0 as usize];
        format!("{}={}", self.u.pkgs[s.name as usize].name, s.ver)
    }
    fn display_name(&self, name: NameId) -> impl Display + '_ {
        self.u.pkgs[name.0 as usize].name.clone()
    }
    fn display_version_set(&self, version_set: VersionSetId) -> impl Display + '_ {
        let v = &self.u.vss[version_set.0 as usize];
        if v.lo == 0 && v.hi == u32::MAX {
            "*".to_string()
        } else {
            format!("{}..{}", v.lo, v.hi)
        }
    }
    fn display_string(&self, string_id: StringId) -> impl Display + '_ {
        self.u.strings[string_id.0 as usize].clone()
    }
    fn version_set_name(&self, version_set: VersionSetId) -> NameId {
        NameId(self.u.vss[version_set.0 as usize].name)
    }
    fn solvable_name(&self, solvable: SolvableId) -> NameId {
        NameId(self.u.sols[solvable.0 as usize].name)
    }
    fn version_sets_in_union(
        &self,
        version_set_union: VersionSetUnionId,
    ) -> impl Iterator<Item = VersionSetId> {
        self.u.unions[version_set_union.0 as usize]
            .clone()
            .into_iter()
            .map(VersionSetId)
    }
}

impl DependencyProvider for P {
    async fn filter_candidates(
        &self,
        candidates: &[SolvableId],
        version_set: VersionSetId,
        inverse: bool,
    ) -> Vec<SolvableId> {
        let v = &self.u.vss[version_set.0 as usize];
        candidates
            .iter()
            .copied()
            .filter(|c| {
                let s = &self.u.sols[c.0 as usize];
                (s.name == v.name && v.lo <= s.ver && s.ver < v.hi) != inverse
            })
            .collect()
    }

    async fn get_candidates(&self, name: NameId) -> Option<Candidates> {
        self.log.borrow_mut().push(format!("cand {}", name.0));
        let p = &self.u.pkgs[name.0 as usize];
        if p.missing {
            return None;
        }
        Some(Candidates {
            candidates: p.sols.iter().map(|&s| SolvableId(s)).collect(),
            favored: p.favored.map(SolvableId),
            locked: p.locked.map(SolvableId),
            hint_dependencies_available: match &p.hint {
                Hint::None => HintDependenciesAvailable::None,
                Hint::All => HintDependenciesAvailable::All,
                Hint::Some(v) => {
                    HintDependenciesAvailable::Some(v.iter().map(|&s| SolvableId(s)).collect())
                }
            },
            excluded: p
                .excluded
                .iter()
                .map(|&(s, r)| (SolvableId(s), StringId(r)))
                .collect(),
        })
    }

    async fn sort_candidates(&self, solver: &SolverCache<Self>, solvables: &mut [SolvableId]) {
        if self.u.sort_fetches_deps {
            for &s in solvables.iter() {
                let _ = solver.get_or_cache_dependencies(s).await;
            }
        }
        solvables.sort_by(|a, b| {
            let a = self.u.sols[a.0 as usize].ver;
            let b = self.u.sols[b.0 as usize].ver;
            b.cmp(&a)
        });
    }

    async fn get_dependencies(&self, solvable: SolvableId) -> Dependencies {
        self.log.borrow_mut().push(format!("deps {}", solvable.0));
        let s = &self.u.sols[solvable.0 as usize];
        if let Some(r) = s.unknown {
            return Dependencies::Unknown(StringId(r));
        }
        Dependencies::Known(KnownDependencies {
            requirements: s.reqs.iter().map(Universe::to_requirement).collect(),
            constrains: s.cons.iter().map(|&v| VersionSetId(v)).collect(),
        })
    }

    fn should_cancel_with_value(&self) -> Option<Box<dyn Any>> {
        None
    }
}

#[derive(Clone, Debug, Default)]
struct Prob {
    reqs: Vec<Req>,
    cons: Vec<u32>,
    soft: Vec<u32>,
}

fn outcome<RT: resolvo::runtime::AsyncRuntime>(solver: &mut Solver<P, RT>, prob: &Prob) -> String {
    let problem = Problem::new()
        .requirements(prob.reqs.iter().map(Universe::to_requirement).collect())
        .constraints(prob.cons.iter().map(|&v| VersionSetId(v)).collect())
        .soft_requirements(prob.soft.iter().map(|&s| SolvableId(s)).collect::<Vec<_>>());
    match solver.solve(problem) {
        Ok(v) => {
            let names: Vec<String> = v
                .iter()
                .map(|&s| solver.provider().display_solvable(s).to_string())
                .collect();
            format!("SOLUTION {}", names.join(", "))
        }
        Err(UnsolvableOrCancelled::Unsolvable(conflict)) => {
            let msg = conflict.display_user_friendly(solver).to_string();
            let graph = conflict.graph(solver);
            let mut out = Vec::new();
            graph.graphviz(&mut out, solver.provider(), true).unwrap();
            format!("CONFLICT\n{msg}\n{}", String::from_utf8(out).unwrap())
        }
        Err(UnsolvableOrCancelled::Cancelled(_)) => "CANCELLED".to_string(),
    }
}

fn outcome_lazy(u: &Rc<Universe>, prob: &Prob) -> String {
    let provider = LazyP::new(u);
    let reqs: Vec<Requirement> = prob.reqs.iter().map(|r| provider.ext_req(r)).collect();
    let cons: Vec<VersionSetId> = prob.cons.iter().map(|&v| provider.ext_vs(v)).collect();
    // soft requirements are solvables: the caller can only know their ids
    // after asking for the candidates, mimic that.
    let soft: Vec<SolvableId> = prob.soft.iter().map(|&s| provider.ext_sol(s)).collect();
    let mut solver = Solver::new(provider);
    let problem = Problem::new()
        .requirements(reqs)
        .constraints(cons)
        .soft_requirements(soft);
    match solver.solve(problem) {
        Ok(v) => {
            let names: Vec<String> = v
                .iter()
                .map(|&s| solver.provider().display_solvable(s).to_string())
                .collect();
            format!("SOLUTION {}", names.join(", "))
        }
        Err(UnsolvableOrCancelled::Unsolvable(conflict)) => {
            let msg = conflict.display_user_friendly(&solver).to_string();
            let graph = conflict.graph(&solver);
            let mut out = Vec::new();
            graph.graphviz(&mut out, solver.provider(), true).unwrap();
            format!("CONFLICT\n{msg}\n{}", String::from_utf8(out).unwrap())
        }
        Err(UnsolvableOrCancelled::Cancelled(_)) => "CANCELLED".to_string(),
    }
}

fn guarded(f: impl FnOnce() -> String) -> String {
    match catch_unwind(AssertUnwindSafe(f)) {
        Ok(s) => s,
        Err(e) => {
            let m = e
                .downcast_ref::<String>()
                .cloned()
                .or_else(|| e.downcast_ref::<&str>().map(|s| s.to_string()))
                .unwrap_or_default();
            format!("PANIC {m}")
        }
    }
}

// ---------------------------------------------------------------------------
// Hand-made scenario: a second solve of the same problem on the same solver
// ---------------------------------------------------------------------------

fn twice_universe() -> (Universe, Prob) {
    let mut u = Universe::default();
    u.add("m", 1, &["q"], &[]);
    u.add("n", 1, &["p"], &[]);
    u.add("p", 1, &[], &[]);
    // p=2 and q=2 exclude each other: whichever of p and q is decided first
    // gets version 2, the other one version 1.
    u.add("p", 2, &["q 1"], &[]);
    u.add("q", 1, &[], &[]);
    u.add("q", 2, &["p 1"], &[]);
    let m = u.req("m");
    let n = u.req("n");
    (
        u,
        Prob {
            reqs: vec![m, n],
            ..Default::default()
        },
    )
}

/// FINDING 1: the second `solve` of the same problem on the same solver returns
/// another solution than the first one (and than any fresh solver).
#[test]
fn second_solve_on_same_solver_gives_another_solution() {
    let (u, prob) = twice_universe();
    println!("{}", u.describe());
    println!("problem: root requires m, n");
    let u = Rc::new(u);

    let mut solver = Solver::new(P::new(&u));
    let first = outcome(&mut solver, &prob);
    let second = outcome(&mut solver, &prob);
    let mut fresh = Solver::new(P::new(&u));
    let fresh = outcome(&mut fresh, &prob);
    println!("first solve : {first}");
    println!("second solve: {second}");
    println!("fresh solver: {fresh}");
    assert_eq!(first, fresh, "fresh solvers agree");
    assert_eq!(
        first, second,
        "the same solver answered the same problem differently the second time"
    );
}

/// FINDING 1b: the same for an unsolvable problem: the second `solve` on the
/// same solver reports another conflict message than the first one.
#[test]
fn second_solve_on_same_solver_gives_another_conflict_message() {
    let mut u = Universe::default();
    u.add("a", 1, &[], &[]);
    u.add("b", 1, &["a 2", "b 2"], &[]);
    u.add("b", 2, &["b 1"], &[]);
    let r = u.req("b");
    let prob = Prob {
        reqs: vec![r],
        ..Default::default()
    };
    println!("{}", u.describe());
    println!("problem: root requires b");
    let u = Rc::new(u);

    let mut solver = Solver::new(P::new(&u));
    let first = outcome(&mut solver, &prob);
    let second = outcome(&mut solver, &prob);
    let mut fresh = Solver::new(P::new(&u));
    let fresh = outcome(&mut fresh, &prob);
    println!("first solve : {first}");
    println!("second solve: {second}");
    println!("fresh solver: {fresh}");
    assert_eq!(first, fresh, "fresh solvers agree");
    assert_eq!(
        first, second,
        "the same solver reported the same unsolvable problem differently the second time"
    );
}

// ---------------------------------------------------------------------------
// A provider that hands out solvable and version set ids on first use, like
// every provider built on `resolvo::utils::Pool` does (e.g. the BundleBoxProvider
// of tests/solver.rs interns solvables in `get_candidates` and version sets in
// `get_dependencies`). It is deterministic: the same sequence of calls gives the
// same answers.
// ---------------------------------------------------------------------------

struct LazyP {
    u: Rc<Universe>,
    sols: RefCell<Vec<u32>>,
    vss: RefCell<Vec<u32>>,
    unions: RefCell<Vec<(u32, Vec<u32>)>>,
}

impl LazyP {
    fn new(u: &Rc<Universe>) -> Self {
        LazyP {
            u: u.clone(),
            sols: Default::default(),
            vss: Default::default(),
            unions: Default::default(),
        }
    }
    fn intern(v: &RefCell<Vec<u32>>, internal: u32) -> u32 {
        let mut v = v.borrow_mut();
        match v.iter().position(|&x| x == internal) {
            Some(i) => i as u32,
            None => {
                v.push(internal);
                (v.len() - 1) as u32
            }
        }
    }
    fn ext_sol(&self, internal: u32) -> SolvableId {
        SolvableId(Self::intern(&self.sols, internal))
    }
    fn ext_vs(&self, internal: u32) -> VersionSetId {
        VersionSetId(Self::intern(&self.vss, internal))
    }
    fn ext_req(&self, r: &Req) -> Requirement {
        match r {
            Req::Single(v) => Requirement::Single(self.ext_vs(*v)),
            Req::Union(un) => {
                if let Some(i) = self.unions.borrow().iter().position(|(x, _)| x == un) {
                    return Requirement::Union(VersionSetUnionId(i as u32));
                }
                let members = self.u.unions[*un as usize]
                    .iter()
                    .map(|&v| self.ext_vs(v).0)
                    .collect();
                let mut unions = self.unions.borrow_mut();
                unions.push((*un, members));
                Requirement::Union(VersionSetUnionId((unions.len() - 1) as u32))
            }
        }
    }
    fn int_sol(&self, s: SolvableId) -> &Sol {
        &self.u.sols[self.sols.borrow()[s.0 as usize] as usize]
    }
    fn int_vs(&self, v: VersionSetId) -> &VS {
        &self.u.vss[self.vss.borrow()[v.0 as usize] as usize]
    }
}

impl Interner for LazyP {
    fn display_solvable(&self, solvable: SolvableId) -> impl Display + '_ {
        let s = self.int_sol(solvable);
        format!("{}={}", self.u.pkgs[s.name as usize].name, s.ver)
    }
    fn display_name(&self, name: NameId) -> impl Display + '_ {
        self.u.pkgs[name.0 as usize].name.clone()
    }
    fn display_version_set(&self, version_set: VersionSetId) -> impl Display + '_ {
        let v = self.int_vs(version_set);
        if v.lo == 0 && v.hi == u32::MAX {
            "*".to_string()
        } else {
            format!("{}..{}", v.lo, v.hi)
        }
    }
    fn display_string(&self, string_id: StringId) -> impl Display + '_ {
        self.u.strings[string_id.0 as usize].clone()
    }
    fn version_set_name(&self, version_set: VersionSetId) -> NameId {
        NameId(self.int_vs(version_set).name)
    }
    fn solvable_name(&self, solvable: SolvableId) -> NameId {
        NameId(self.int_sol(solvable).name)
    }
    fn version_sets_in_union(
        &self,
        version_set_union: VersionSetUnionId,
    ) -> impl Iterator<Item = VersionSetId> {
        // always in the declared order
        self.unions.borrow()[version_set_union.0 as usize]
            .1
            .clone()
            .into_iter()
            .map(VersionSetId)
    }
}

impl DependencyProvider for LazyP {
    async fn filter_candidates(
        &self,
        candidates: &[SolvableId],
        version_set: VersionSetId,
        inverse: bool,
    ) -> Vec<SolvableId> {
        let v = self.int_vs(version_set);
        candidates
            .iter()
            .copied()
            .filter(|&c| {
                let s = self.int_sol(c);
                (s.name == v.name && v.lo <= s.ver && s.ver < v.hi) != inverse
            })
            .collect()
    }

    async fn get_candidates(&self, name: NameId) -> Option<Candidates> {
        let p = &self.u.pkgs[name.0 as usize];
        if p.missing {
            return None;
        }
        Some(Candidates {
            candidates: p.sols.iter().map(|&s| self.ext_sol(s)).collect(),
            favored: p.favored.map(|s| self.ext_sol(s)),
            locked: p.locked.map(|s| self.ext_sol(s)),
            hint_dependencies_available: match &p.hint {
                Hint::None => HintDependenciesAvailable::None,
                Hint::All => HintDependenciesAvailable::All,
                Hint::Some(v) => {
                    HintDependenciesAvailable::Some(v.iter().map(|&s| self.ext_sol(s)).collect())
                }
            },
            excluded: p
                .excluded
                .iter()
                .map(|&(s, r)| (self.ext_sol(s), StringId(r)))
                .collect(),
        })
    }

    async fn sort_candidates(&self, solver: &SolverCache<Self>, solvables: &mut [SolvableId]) {
        if self.u.sort_fetches_deps {
            for &s in solvables.iter() {
                let _ = solver.get_or_cache_dependencies(s).await;
            }
        }
        solvables.sort_by(|&a, &b| self.int_sol(b).ver.cmp(&self.int_sol(a).ver));
    }

    async fn get_dependencies(&self, solvable: SolvableId) -> Dependencies {
        let s = self.int_sol(solvable);
        if let Some(r) = s.unknown {
            return Dependencies::Unknown(StringId(r));
        }
        Dependencies::Known(KnownDependencies {
            requirements: s.reqs.iter().map(|r| self.ext_req(r)).collect(),
            constrains: s.cons.iter().map(|&v| self.ext_vs(v)).collect(),
        })
    }
}

fn snapshot_universe() -> (Universe, u32) {
    let mut u = Universe::default();
    u.add("x", 1, &["a | b"], &[]);
    u.add("a", 1, &["c 1 | d 1"], &[]);
    u.add("b", 1, &["d 1"], &[]);
    u.add("c", 1, &[], &[]);
    u.add("d", 1, &[], &[]);
    let root = u.spec("x");
    (u, root)
}

/// Captures the (deterministic) provider in a snapshot, starting from the root
/// requirement, and solves the root requirement against the snapshot.
fn snapshot_and_solve() -> String {
    use resolvo::snapshot::DependencySnapshot;
    let (u, root) = snapshot_universe();
    let u = Rc::new(u);
    let provider = LazyP::new(&u);
    let root_vs = provider.ext_vs(root);
    let snapshot = DependencySnapshot::from_provider(provider, [], [root_vs], []).unwrap();
    let mut solver = Solver::new(snapshot.provider());
    let problem = Problem::new().requirements(vec![root_vs.into()]);
    match solver.solve(problem) {
        Ok(v) => v
            .iter()
            .map(|&s| solver.provider().display_solvable(s).to_string())
            .collect::<Vec<_>>()
            .join(", "),
        Err(UnsolvableOrCancelled::Unsolvable(c)) => c.display_user_friendly(&solver).to_string(),
        Err(_) => "cancelled".into(),
    }
}

/// FINDING 2: capturing the same deterministic provider in a
/// `DependencySnapshot` and solving the same problem against the snapshot gives
/// different solutions from run to run: `from_provider_async` walks the members
/// of a version set union in the iteration order of an `ahash` set.
#[test]
fn snapshot_of_deterministic_provider_solves_differently_from_run_to_run() {
    let (u, _) = snapshot_universe();
    println!("{}", u.describe());
    println!("problem: root requires x; snapshot taken with version_sets = [x *]");
    let mut outcomes: Vec<(String, usize)> = Vec::new();
    for _ in 0..64 {
        let o = snapshot_and_solve();
        match outcomes.iter_mut().find(|(x, _)| *x == o) {
            Some((_, n)) => *n += 1,
            None => outcomes.push((o, 1)),
        }
    }
    for (o, n) in &outcomes {
        println!("{n:3} x  {o}");
    }
    assert_eq!(
        outcomes.len(),
        1,
        "64 runs of the same snapshot + solve gave {} different answers",
        outcomes.len()
    );
}

// ---------------------------------------------------------------------------
// Randomized search
// ---------------------------------------------------------------------------

struct Rng(u64);
impl Rng {
    fn next(&mut self) -> u64 {
        // splitmix64
        self.0 = self.0.wrapping_add(0x9E3779B97F4A7C15);
        let mut z = self.0;
        z = (z ^ (z >> 30)).wrapping_mul(0xBF58476D1CE4E5B9);
        z = (z ^ (z >> 27)).wrapping_mul(0x94D049BB133111EB);
        z ^ (z >> 31)
    }
    fn below(&mut self, n: u64) -> u64 {
        self.next() % n
    }
    fn chance(&mut self, num: u64, den: u64) -> bool {
        self.below(den) < num
    }
}

fn gen_universe(rng: &mut Rng) -> (Universe, Prob) {
    let mut u = Universe::default();
    let npk = 2 + rng.below(5) as usize;
    let names = ["a", "b", "c", "d", "e", "f", "g"];
    let mut nver = vec![];
    for i in 0..npk {
        u.pkg(names[i]);
        nver.push(1 + rng.below(4) as u32);
    }
    let simple = std::env::var("HUNT_SIMPLE").is_ok();
    let rich = !simple && rng.chance(1, 2);
    let gen_vs = |u: &mut Universe, rng: &mut Rng, nver: &Vec<u32>| -> u32 {
        let n = rng.below(npk as u64) as u32;
        let nv = nver[n as usize];
        match rng.below(4) {
            0 => u.vs(n, 0, u32::MAX),
            1 => {
                let a = 1 + rng.below(nv as u64 + 1) as u32;
                u.vs(n, a, a + 1)
            }
            _ => {
                let a = 1 + rng.below(nv as u64) as u32;
                let b = a + 1 + rng.below(nv as u64) as u32;
                u.vs(n, a, b)
            }
        }
    };
    let gen_req = |u: &mut Universe, rng: &mut Rng, nver: &Vec<u32>| -> Req {
        if !simple && rng.chance(1, 5) {
            let k = 2 + rng.below(2);
            let v = (0..k).map(|_| gen_vs(u, rng, nver)).collect();
            u.unions.push(v);
            Req::Union((u.unions.len() - 1) as u32)
        } else {
            Req::Single(gen_vs(u, rng, nver))
        }
    };
    for i in 0..npk {
        // listing order of candidates is random
        let mut vers: Vec<u32> = (1..=nver[i]).collect();
        for k in (1..vers.len()).rev() {
            let j = rng.below(k as u64 + 1) as usize;
            vers.swap(k, j);
        }
        for v in vers {
            let nreq = rng.below(3);
            let reqs: Vec<Req> = (0..nreq).map(|_| gen_req(&mut u, rng, &nver)).collect();
            let ncon = if rng.chance(1, 3) { 1 + rng.below(2) } else { 0 };
            let cons: Vec<u32> = (0..ncon).map(|_| gen_vs(&mut u, rng, &nver)).collect();
            let unknown = if rich && rng.chance(1, 12) {
                Some(u.string("deps unknown"))
            } else {
                None
            };
            u.sols.push(Sol {
                name: i as u32,
                ver: v,
                reqs,
                cons,
                unknown,
            });
            let id = (u.sols.len() - 1) as u32;
            u.pkgs[i].sols.push(id);
        }
    }
    for i in 0..npk {
        let sols = u.pkgs[i].sols.clone();
        let pick = |rng: &mut Rng| sols[rng.below(sols.len() as u64) as usize];
        if rich {
            if rng.chance(1, 6) {
                u.pkgs[i].favored = Some(pick(rng));
            }
            if rng.chance(1, 8) {
                u.pkgs[i].locked = Some(pick(rng));
            }
            if rng.chance(1, 6) {
                let r = if rng.chance(1, 2) { "reason A" } else { "reason B" };
                let r = u.string(r);
                let s = pick(rng);
                u.pkgs[i].excluded.push((s, r));
                if rng.chance(1, 3) {
                    // excluded candidates that are not listed
                    u.pkgs[i].sols.retain(|&x| x != s);
                }
            }
            if rng.chance(1, 30) {
                u.pkgs[i].missing = true;
            }
        }
        u.pkgs[i].hint = match if simple { 3 } else { rng.below(4) } {
            0 => Hint::All,
            1 => Hint::Some(sols.iter().copied().filter(|_| rng.chance(1, 2)).collect()),
            _ => Hint::None,
        };
    }
    u.sort_fetches_deps = !simple && rng.chance(1, 8);

    let nroot = 1 + rng.below(3);
    let reqs = (0..nroot).map(|_| gen_req(&mut u, rng, &nver)).collect();
    let cons = if !simple && rng.chance(1, 4) {
        vec![gen_vs(&mut u, rng, &nver)]
    } else {
        vec![]
    };
    let nsoft = if !simple && rng.chance(1, 3) { 1 + rng.below(3) } else { 0 };
    let soft = (0..nsoft)
        .map(|_| rng.below(u.sols.len() as u64) as u32)
        .collect();
    (u, Prob { reqs, cons, soft })
}

fn env_u64(name: &str, default: u64) -> u64 {
    std::env::var(name)
        .ok()
        .and_then(|v| v.parse().ok())
        .unwrap_or(default)
}

/// Randomized: fresh solvers (each with freshly seeded hash maps) must agree,
/// also when driven by a tokio runtime.
#[test]
#[ignore = "randomized search, run with --ignored (HUNT_START / HUNT_COUNT / HUNT_SIMPLE)"]
fn random_fresh_instances_agree() {
    let start = env_u64("HUNT_START", 0);
    let count = env_u64("HUNT_COUNT", 20000);
    let mut diffs = 0;
    let mut conflicts = 0;
    let mut panics = 0;
    let rt = tokio::runtime::Builder::new_current_thread().build().unwrap();
    for seed in start..start + count {
        let mut rng = Rng(seed.wrapping_mul(0x2545F4914F6CDD1D) ^ 0xC06);
        let (u, prob) = gen_universe(&mut rng);
        let u = Rc::new(u);
        let o1 = guarded(|| outcome(&mut Solver::new(P::new(&u)), &prob));
        if o1.starts_with("CONFLICT") {
            conflicts += 1;
        }
        if o1.starts_with("PANIC") {
            panics += 1;
        }
        for round in 0..4 {
            let o2 = if round == 3 {
                guarded(|| outcome_lazy(&u, &prob))
            } else if round == 2 {
                guarded(|| {
                    outcome(
                        &mut Solver::new(P::new(&u)).with_runtime(rt.handle().clone()),
                        &prob,
                    )
                })
            } else {
                guarded(|| outcome(&mut Solver::new(P::new(&u)), &prob))
            };
            if o1 != o2 {
                diffs += 1;
                println!("seed {seed} round {round}\n{}\n{prob:?}\n--- first\n{o1}\n--- other\n{o2}", u.describe());
                break;
            }
        }
    }
    println!("cases {count}, conflicts {conflicts}, panics {panics}, diffs {diffs}");
    assert_eq!(diffs, 0);
}

/// Randomized: a second solve on the same solver agrees with the first one.
#[test]
#[ignore = "randomized search, run with --ignored (HUNT_START / HUNT_COUNT / HUNT_SIMPLE)"]
fn random_second_solve_agrees() {
    let start = env_u64("HUNT_START", 0);
    let count = env_u64("HUNT_COUNT", 20000);
    let mut diffs = 0;
    let mut diff_conflict_text = 0;
    let mut diff_solution = 0;
    let mut diff_kind = 0;
    let mut shown = 0;
    let mut smallest = usize::MAX;
    let mut smallest_msg = usize::MAX;
    for seed in start..start + count {
        let mut rng = Rng(seed.wrapping_mul(0x2545F4914F6CDD1D) ^ 0xC06);
        let (u, prob) = gen_universe(&mut rng);
        let u = Rc::new(u);
        let mut solver = Solver::new(P::new(&u));
        let o1 = guarded(|| outcome(&mut solver, &prob));
        if o1.starts_with("PANIC") {
            continue;
        }
        let o2 = guarded(|| outcome(&mut solver, &prob));
        if o1 != o2 {
            diffs += 1;
            let k1 = o1.split_whitespace().next().unwrap().to_string();
            let k2 = o2.split_whitespace().next().unwrap().to_string();
            if k1 != k2 {
                diff_kind += 1;
                println!("KIND DIFF seed {seed}\n{}\n{prob:?}\n--- first\n{o1}\n--- second\n{o2}", u.describe());
            } else if k1 == "SOLUTION" {
                diff_solution += 1;
            } else {
                diff_conflict_text += 1;
            }
            let sorted = |o: &str| {
                let mut v: Vec<String> = o["SOLUTION ".len().min(o.len())..].split(", ").map(|x| x.to_string()).collect();
                v.sort();
                v
            };
            if k1 == "SOLUTION" && k2 == "SOLUTION" && sorted(&o1) != sorted(&o2) && u.sols.len() < smallest {
                smallest = u.sols.len();
                println!("SMALLEST seed {seed}\n{}\n{prob:?}\n--- first\n{o1}\n--- second\n{o2}", u.describe());
            }
            let msg = |o: &str| o.split("digraph").next().unwrap().to_string();
            if k1 == "CONFLICT" && k2 == "CONFLICT" && msg(&o1) != msg(&o2) && u.sols.len() < smallest_msg {
                smallest_msg = u.sols.len();
                println!("SMALLEST-MSG seed {seed}\n{}\n{prob:?}\n--- first\n{o1}\n--- second\n{o2}", u.describe());
            }
            if shown < 0 {
                shown += 1;
                println!("seed {seed}\n{}\n{prob:?}\n--- first\n{o1}\n--- second\n{o2}", u.describe());
            }
        }
    }
    println!(
        "cases {count}, diffs {diffs} (solution {diff_solution}, conflict text {diff_conflict_text}, kind {diff_kind})"
    );
    assert_eq!(diffs, 0);
}

/// Prints a digest of the outcomes of many cases; run it in two processes and
/// compare the output.
#[test]
#[ignore = "randomized search, run with --ignored (HUNT_START / HUNT_COUNT / HUNT_SIMPLE)"]
fn random_digest() {
    let start = env_u64("HUNT_START", 0);
    let count = env_u64("HUNT_COUNT", 20000);
    let mut h: u64 = 0xcbf29ce484222325;
    for seed in start..start + count {
        let mut rng = Rng(seed.wrapping_mul(0x2545F4914F6CDD1D) ^ 0xC06);
        let (u, prob) = gen_universe(&mut rng);
        let u = Rc::new(u);
        let o1 = guarded(|| outcome(&mut Solver::new(P::new(&u)), &prob));
        for b in o1.bytes() {
            h ^= b as u64;
            h = h.wrapping_mul(0x100000001b3);
        }
    }
    println!("DIGEST {start} {count} {h:016x}");
}
