// Demonstration for F30 (C20): two overlapping queries for ONE version set made the SolverCache call
// filter_candidates and sort_candidates twice for it.  Drop this file into tests/ of the repository:
//   cargo test --offline --test F30_overlapping_queries
// Fails before the fix (filter/sort evaluated 2 times), passes with it.
use std::{cell::RefCell, collections::HashMap, fmt::Display, future::Future, pin::Pin, task::{Context, Poll}};

use resolvo::{
    Candidates, Dependencies, DependencyProvider, HintDependenciesAvailable, Interner, KnownDependencies, NameId, Problem,
    Requirement, SolvableId, Solver, SolverCache, StringId, VersionSetId, VersionSetUnionId,
    runtime::AsyncRuntime,
};

/// yields once, then completes
struct YieldOnce(bool);
impl Future for YieldOnce {
    type Output = ();
    fn poll(mut self: Pin<&mut Self>, cx: &mut Context<'_>) -> Poll<()> {
        if self.0 { Poll::Ready(()) } else { self.0 = true; cx.waker().wake_by_ref(); Poll::Pending }
    }
}

/// packages: 0 = x {x0}, 1 = y {y0}, 2 = z {z0, z1}; version sets: 0 = x*, 1 = y*, 2 = z*
/// solvables: 0 = x0, 1 = y0, 2 = z0, 3 = z1; x0 and y0 both require version set 2
#[derive(Default)]
struct P { filter: RefCell<HashMap<(u32, bool), u32>>, sort: RefCell<HashMap<Vec<u32>, u32>> }

fn name_of_solvable(s: u32) -> u32 { match s { 0 => 0, 1 => 1, _ => 2 } }

impl Interner for P {
    fn display_solvable(&self, s: SolvableId) -> impl Display + '_ { format!("s{}", s.0) }
    fn display_name(&self, n: NameId) -> impl Display + '_ { format!("n{}", n.0) }
    fn display_version_set(&self, v: VersionSetId) -> impl Display + '_ { format!("v{}", v.0) }
    fn display_string(&self, s: StringId) -> impl Display + '_ { format!("str{}", s.0) }
    fn version_set_name(&self, v: VersionSetId) -> NameId { NameId(v.0) }
    fn solvable_name(&self, s: SolvableId) -> NameId { NameId(name_of_solvable(s.0)) }
    fn version_sets_in_union(&self, _u: VersionSetUnionId) -> impl Iterator<Item = VersionSetId> { std::iter::empty() }
}

impl DependencyProvider for P {
    async fn filter_candidates(&self, candidates: &[SolvableId], version_set: VersionSetId, inverse: bool) -> Vec<SolvableId> {
        *self.filter.borrow_mut().entry((version_set.0, inverse)).or_default() += 1;
        if inverse { vec![] } else { candidates.to_vec() }
    }
    async fn get_candidates(&self, name: NameId) -> Option<Candidates> {
        YieldOnce(false).await;
        let candidates = match name.0 { 0 => vec![SolvableId(0)], 1 => vec![SolvableId(1)], _ => vec![SolvableId(2), SolvableId(3)] };
        Some(Candidates { candidates, favored: None, locked: None, hint_dependencies_available: HintDependenciesAvailable::None, excluded: vec![] })
    }
    async fn sort_candidates(&self, _solver: &SolverCache<Self>, solvables: &mut [SolvableId]) {
        *self.sort.borrow_mut().entry(solvables.iter().map(|s| s.0).collect()).or_default() += 1;
        solvables.sort();
    }
    async fn get_dependencies(&self, solvable: SolvableId) -> Dependencies {
        let requirements = if solvable.0 < 2 { vec![Requirement::Single(VersionSetId(2)).into()] } else { vec![] };
        Dependencies::Known(KnownDependencies { requirements, constrains: vec![] })
    }
}

struct Spin;
impl AsyncRuntime for Spin {
    fn block_on<F: Future>(&self, f: F) -> F::Output {
        let waker = futures::task::noop_waker();
        let mut cx = Context::from_waker(&waker);
        let mut f = std::pin::pin!(f);
        loop { if let Poll::Ready(v) = f.as_mut().poll(&mut cx) { return v; } }
    }
}

#[test]
fn one_solve_consults_the_provider_once_per_version_set() {
    let mut solver = Solver::new(P::default()).with_runtime(Spin);
    let problem = Problem::new().requirements(vec![Requirement::Single(VersionSetId(0)).into(), Requirement::Single(VersionSetId(1)).into()]);
    let solution = solver.solve(problem).expect("solvable");
    assert_eq!(solution.len(), 3);
    let p = solver.provider();
    for (k, n) in p.filter.borrow().iter() { assert_eq!(*n, 1, "filter_candidates{k:?} was evaluated {n} times during one solve"); }
    for (k, n) in p.sort.borrow().iter() { assert_eq!(*n, 1, "sort_candidates{k:?} was evaluated {n} times during one solve"); }
}
