// Hunting sub-agent's test file for C18 (third round). The test that demonstrates F32 is
//   solvable_ids_wrap_around_after_u32_max   (needs ~18 GB of memory and ~160 s: 2^32 + 1 calls of intern_solvable);
// it fails before /repo 680d82f (the (2^32+1)-th solvable gets SolvableId(0) again) and panics with
// "solvable id too big" at the 2^32+1-th call with it. The check of C18 reaches the same conversion through the hook
// resolvo::verif::pool_id_for_index (pool_ops --probe-ids).
//! C18 hunt: Pool interning is stable.
//!
//! Contains
//!  * `fuzz_pool_against_model`: randomized differential test of the pool
//!    against a trivial model, with references held across later insertions
//!    (passes on the unmodified code);
//!  * hand-made scenarios that pass (chunk boundaries, reentrancy-free use);
//!  * `solvable_ids_wrap_around_after_u32_max`: a FINDING (fails on the
//!    unmodified code; needs ~18 GiB of memory and a few minutes).

use std::{
    collections::HashMap,
    fmt::{Display, Formatter},
};

use resolvo::{NameId, SolvableId, StringId, VersionSetId, VersionSetUnionId, utils::Pool};

// ---------------------------------------------------------------------------
// tiny deterministic rng
// ---------------------------------------------------------------------------
struct Rng(u64);
impl Rng {
    fn next(&mut self) -> u64 {
        self.0 = self.0.wrapping_add(0x9E37_79B9_7F4A_7C15);
        let mut z = self.0;
        z = (z ^ (z >> 30)).wrapping_mul(0xBF58_476D_1CE4_E5B9);
        z = (z ^ (z >> 27)).wrapping_mul(0x94D0_49BB_1331_11EB);
        z ^ (z >> 31)
    }
    fn below(&mut self, n: usize) -> usize {
        (self.next() % n as u64) as usize
    }
}

// ---------------------------------------------------------------------------
// A version set / record type with heap content (so that moves of elements
// or stale references would be visible).
// ---------------------------------------------------------------------------
#[derive(Clone, Debug, PartialEq, Eq, Hash)]
struct Vs(String);

#[derive(Clone, Debug, PartialEq, Eq)]
struct Rec(String);
impl Display for Rec {
    fn fmt(&self, f: &mut Formatter<'_>) -> std::fmt::Result {
        write!(f, "{}", self.0)
    }
}
impl resolvo::utils::VersionSet for Vs {
    type V = Rec;
}

/// One randomized case. Returns Err(description) on a property violation.
fn run_case(seed: u64, max_ops: usize, value_space: usize) -> Result<(), String> {
    let mut rng = Rng(seed);
    let pool: Pool<Vs, String> = Pool::new();

    // model
    let mut m_names: Vec<String> = Vec::new();
    let mut m_name_ids: HashMap<String, NameId> = HashMap::new();
    let mut m_strings: Vec<String> = Vec::new();
    let mut m_string_ids: HashMap<String, StringId> = HashMap::new();
    let mut m_vs: Vec<(NameId, Vs)> = Vec::new();
    let mut m_vs_ids: HashMap<(NameId, Vs), VersionSetId> = HashMap::new();
    let mut m_solvables: Vec<(NameId, Rec)> = Vec::new();
    let mut m_unions: Vec<Vec<VersionSetId>> = Vec::new();

    // references held across later insertions, with a copy of what they
    // pointed at when obtained
    let mut held_str: Vec<(&str, String, *const u8)> = Vec::new();
    let mut held_name: Vec<(&String, String, *const String)> = Vec::new();
    let mut held_vs: Vec<(&Vs, Vs, *const Vs)> = Vec::new();
    let mut held_rec: Vec<(&Rec, &NameId, Rec, NameId)> = Vec::new();

    let n_ops = 1 + rng.below(max_ops);
    // bias of this case: which kind of op dominates (so that single arenas
    // cross several chunk boundaries within one case)
    let bias = rng.below(8);

    let mk = |rng: &mut Rng, prefix: &str| -> String {
        let k = rng.below(value_space);
        // vary length: some long strings, the empty string, shared prefixes
        match k % 7 {
            0 if k == 0 => String::new(),
            1 => format!("{prefix}{k}{}", "x".repeat(k % 40)),
            _ => format!("{prefix}{k}"),
        }
    };

    for step in 0..n_ops {
        let mut op = rng.below(13);
        if rng.below(3) != 0 && bias < 5 {
            op = bias; // 0..=4 are the five intern ops
        }
        let ctx = |what: &str| format!("seed {seed} step {step}: {what}");
        match op {
            // intern string (as &str or as String)
            0 => {
                let s = mk(&mut rng, "s");
                let id = if rng.below(2) == 0 {
                    pool.intern_string(s.as_str())
                } else {
                    pool.intern_string(s.clone())
                };
                match m_string_ids.get(&s) {
                    Some(&old) => {
                        if old != id {
                            return Err(ctx(&format!(
                                "string {s:?} interned twice: {old:?} then {id:?}"
                            )));
                        }
                    }
                    None => {
                        if id.0 as usize != m_strings.len() {
                            return Err(ctx(&format!(
                                "new string {s:?} got id {id:?}, expected {}",
                                m_strings.len()
                            )));
                        }
                        m_strings.push(s.clone());
                        m_string_ids.insert(s, id);
                    }
                }
            }
            // intern name
            1 => {
                let s = mk(&mut rng, "n");
                let id = if rng.below(2) == 0 {
                    pool.intern_package_name(s.as_str())
                } else {
                    pool.intern_package_name(s.clone())
                };
                match m_name_ids.get(&s) {
                    Some(&old) => {
                        if old != id {
                            return Err(ctx(&format!(
                                "name {s:?} interned twice: {old:?} then {id:?}"
                            )));
                        }
                    }
                    None => {
                        if id.0 as usize != m_names.len() {
                            return Err(ctx(&format!(
                                "new name {s:?} got id {id:?}, expected {}",
                                m_names.len()
                            )));
                        }
                        m_names.push(s.clone());
                        m_name_ids.insert(s, id);
                    }
                }
            }
            // intern version set (name id may be any u32: the pool does not
            // check it)
            2 => {
                let name = if m_names.is_empty() || rng.below(8) == 0 {
                    NameId(rng.below(5) as u32)
                } else {
                    NameId(rng.below(m_names.len()) as u32)
                };
                let vs = Vs(mk(&mut rng, "v"));
                let id = pool.intern_version_set(name, vs.clone());
                match m_vs_ids.get(&(name, vs.clone())) {
                    Some(&old) => {
                        if old != id {
                            return Err(ctx(&format!(
                                "version set {name:?}/{vs:?} interned twice: {old:?} then {id:?}"
                            )));
                        }
                    }
                    None => {
                        if id.0 as usize != m_vs.len() {
                            return Err(ctx(&format!(
                                "new version set got id {id:?}, expected {}",
                                m_vs.len()
                            )));
                        }
                        m_vs.push((name, vs.clone()));
                        m_vs_ids.insert((name, vs), id);
                    }
                }
            }
            // intern solvable (never deduplicated)
            3 => {
                let name = NameId(rng.below(m_names.len().max(1)) as u32);
                let rec = Rec(mk(&mut rng, "r"));
                let id = pool.intern_solvable(name, rec.clone());
                if id.0 as usize != m_solvables.len() {
                    return Err(ctx(&format!(
                        "solvable got id {id:?}, expected {}",
                        m_solvables.len()
                    )));
                }
                m_solvables.push((name, rec));
            }
            // intern union (never deduplicated), 1..=6 members
            4 => {
                let n = 1 + rng.below(6);
                let members: Vec<VersionSetId> = (0..n)
                    .map(|_| VersionSetId(rng.below(m_vs.len().max(1)) as u32))
                    .collect();
                let id =
                    pool.intern_version_set_union(members[0], members[1..].iter().copied());
                if id.0 as usize != m_unions.len() {
                    return Err(ctx(&format!(
                        "union got id {id:?}, expected {}",
                        m_unions.len()
                    )));
                }
                m_unions.push(members);
            }
            // resolve + hold string
            5 if !m_strings.is_empty() => {
                let i = rng.below(m_strings.len());
                let r = pool.resolve_string(StringId(i as u32));
                if r != m_strings[i] {
                    return Err(ctx(&format!("string {i} resolves to {r:?}")));
                }
                held_str.push((r, r.to_owned(), r.as_ptr()));
            }
            // resolve + hold name
            6 if !m_names.is_empty() => {
                let i = rng.below(m_names.len());
                let r = pool.resolve_package_name(NameId(i as u32));
                if *r != m_names[i] {
                    return Err(ctx(&format!("name {i} resolves to {r:?}")));
                }
                held_name.push((r, r.clone(), r as *const String));
            }
            // resolve + hold version set
            7 if !m_vs.is_empty() => {
                let i = rng.below(m_vs.len());
                let id = VersionSetId(i as u32);
                let r = pool.resolve_version_set(id);
                let n = pool.resolve_version_set_package_name(id);
                if *r != m_vs[i].1 || n != m_vs[i].0 {
                    return Err(ctx(&format!("version set {i} resolves to {n:?}/{r:?}")));
                }
                held_vs.push((r, r.clone(), r as *const Vs));
            }
            // resolve + hold solvable
            8 if !m_solvables.is_empty() => {
                let i = rng.below(m_solvables.len());
                let s = pool.resolve_solvable(SolvableId(i as u32));
                if s.record != m_solvables[i].1 || s.name != m_solvables[i].0 {
                    return Err(ctx(&format!("solvable {i} resolves wrongly")));
                }
                held_rec.push((&s.record, &s.name, s.record.clone(), s.name));
            }
            // resolve union
            9 if !m_unions.is_empty() => {
                let i = rng.below(m_unions.len());
                let it = pool.resolve_version_set_union(VersionSetUnionId(i as u32));
                // intern something while the iterator is alive
                let extra = pool.intern_version_set_union(VersionSetId(0), std::iter::empty());
                if extra.0 as usize != m_unions.len() {
                    return Err(ctx("extra union id"));
                }
                m_unions.push(vec![VersionSetId(0)]);
                let got: Vec<_> = it.collect();
                if got != m_unions[i] {
                    return Err(ctx(&format!(
                        "union {i} resolves to {got:?}, expected {:?}",
                        m_unions[i]
                    )));
                }
            }
            // lookup name
            10 => {
                let s = mk(&mut rng, "n");
                let got = pool.lookup_package_name(&s);
                let want = m_name_ids.get(&s).copied();
                if got != want {
                    return Err(ctx(&format!("lookup {s:?}: {got:?}, expected {want:?}")));
                }
            }
            // check a random held reference right now
            11 => {
                if !held_str.is_empty() {
                    let (r, copy, p) = &held_str[rng.below(held_str.len())];
                    if *r != copy.as_str() || r.as_ptr() != *p {
                        return Err(ctx("held string reference changed"));
                    }
                }
                if !held_name.is_empty() {
                    let (r, copy, _) = &held_name[rng.below(held_name.len())];
                    if *r != copy {
                        return Err(ctx("held name reference changed"));
                    }
                }
            }
            _ => {}
        }
    }

    // final sweep: everything resolves to what the model says, every held
    // reference is unchanged and is the very same object the pool returns now
    let ctx = |what: String| format!("seed {seed} final: {what}");
    for (i, s) in m_strings.iter().enumerate() {
        if pool.resolve_string(StringId(i as u32)) != s {
            return Err(ctx(format!("string {i}")));
        }
        if pool.intern_string(s.as_str()) != StringId(i as u32) {
            return Err(ctx(format!("re-intern string {i}")));
        }
    }
    for (i, s) in m_names.iter().enumerate() {
        if pool.resolve_package_name(NameId(i as u32)) != s {
            return Err(ctx(format!("name {i}")));
        }
        if pool.lookup_package_name(s) != Some(NameId(i as u32)) {
            return Err(ctx(format!("lookup name {i}")));
        }
        if pool.intern_package_name(s.as_str()) != NameId(i as u32) {
            return Err(ctx(format!("re-intern name {i}")));
        }
    }
    for (i, (n, vs)) in m_vs.iter().enumerate() {
        let id = VersionSetId(i as u32);
        if pool.resolve_version_set(id) != vs || pool.resolve_version_set_package_name(id) != *n {
            return Err(ctx(format!("version set {i}")));
        }
        if pool.intern_version_set(*n, vs.clone()) != id {
            return Err(ctx(format!("re-intern version set {i}")));
        }
    }
    for (i, (n, rec)) in m_solvables.iter().enumerate() {
        let s = pool.resolve_solvable(SolvableId(i as u32));
        if s.name != *n || s.record != *rec {
            return Err(ctx(format!("solvable {i}")));
        }
    }
    for (i, members) in m_unions.iter().enumerate() {
        let got: Vec<_> = pool
            .resolve_version_set_union(VersionSetUnionId(i as u32))
            .collect();
        if got != *members {
            return Err(ctx(format!("union {i}")));
        }
    }
    for (r, copy, p) in &held_str {
        if *r != copy.as_str() || r.as_ptr() != *p {
            return Err(ctx("held string".into()));
        }
        let id = m_string_ids[copy];
        if pool.resolve_string(id).as_ptr() != *p {
            return Err(ctx("held string is no longer the pool's string".into()));
        }
    }
    for (r, copy, p) in &held_name {
        if *r != copy {
            return Err(ctx("held name".into()));
        }
        let id = m_name_ids[copy];
        if pool.resolve_package_name(id) as *const String != *p {
            return Err(ctx("held name moved".into()));
        }
    }
    for (r, copy, p) in &held_vs {
        if *r != copy || *r as *const Vs != *p {
            return Err(ctx("held version set".into()));
        }
    }
    for (rec, name, rec_copy, name_copy) in &held_rec {
        if *rec != rec_copy || *name != name_copy {
            return Err(ctx("held solvable".into()));
        }
    }
    Ok(())
}

fn env_usize(name: &str, default: usize) -> usize {
    std::env::var(name)
        .ok()
        .and_then(|v| v.parse().ok())
        .unwrap_or(default)
}

/// Randomized differential test. HUNT_CASES (default 20000) cases starting at
/// seed HUNT_SEED0 (default 0).
#[test]
fn fuzz_pool_against_model() {
    let cases = env_usize("HUNT_CASES", 20_000);
    let seed0 = env_usize("HUNT_SEED0", 0);
    for i in 0..cases {
        let seed = (seed0 + i) as u64;
        // three shapes: many short cases with few distinct values (lots of
        // re-interning), medium, and long cases with many distinct values
        // (several chunk boundaries in each arena)
        let (max_ops, space) = match seed % 10 {
            0 => (3000, 2000),
            1 | 2 => (700, 400),
            3 => (700, 20),
            _ => (150, 60),
        };
        if let Err(e) = run_case(seed.wrapping_mul(0x2545_F491_4F6C_DD1D), max_ops, space) {
            panic!("case {seed}: {e}");
        }
    }
}

/// Deterministic: every arena crosses many chunk boundaries (chunk = 128)
/// while a reference to *every* element is held.
#[test]
fn references_survive_many_chunks() {
    let pool: Pool<Vs, String> = Pool::new();
    let n = 128 * 40 + 3;
    let mut strs: Vec<(&str, *const u8)> = Vec::new();
    let mut names: Vec<&String> = Vec::new();
    let mut vss: Vec<&Vs> = Vec::new();
    let mut recs: Vec<&Rec> = Vec::new();
    for i in 0..n {
        let sid = pool.intern_string(format!("s{i}"));
        let nid = pool.intern_package_name(format!("n{i}"));
        let vid = pool.intern_version_set(nid, Vs(format!("v{i}")));
        let so = pool.intern_solvable(nid, Rec(format!("r{i}")));
        let un = pool.intern_version_set_union(vid, (0..i % 5).map(|k| VersionSetId(k as u32)));
        assert_eq!(
            (sid.0, nid.0, vid.0, so.0, un.0),
            (i as u32, i as u32, i as u32, i as u32, i as u32)
        );
        let s = pool.resolve_string(sid);
        strs.push((s, s.as_ptr()));
        names.push(pool.resolve_package_name(nid));
        vss.push(pool.resolve_version_set(vid));
        recs.push(&pool.resolve_solvable(so).record);
    }
    for i in 0..n {
        assert_eq!(strs[i].0, format!("s{i}"));
        assert_eq!(strs[i].0.as_ptr(), strs[i].1);
        assert_eq!(*names[i], format!("n{i}"));
        assert_eq!(vss[i].0, format!("v{i}"));
        assert_eq!(recs[i].0, format!("r{i}"));
        assert!(std::ptr::eq(
            names[i],
            pool.resolve_package_name(NameId(i as u32))
        ));
        let u: Vec<_> = pool
            .resolve_version_set_union(VersionSetUnionId(i as u32))
            .collect();
        let mut want = vec![VersionSetId(i as u32)];
        want.extend((0..i % 5).map(|k| VersionSetId(k as u32)));
        assert_eq!(u, want);
        // second interning gives the same ids
        assert_eq!(pool.intern_string(format!("s{i}")), StringId(i as u32));
        assert_eq!(pool.intern_package_name(format!("n{i}")), NameId(i as u32));
        assert_eq!(
            pool.intern_version_set(NameId(i as u32), Vs(format!("v{i}"))),
            VersionSetId(i as u32)
        );
    }
}

// ---------------------------------------------------------------------------
// FINDING: ids are produced by `x as u32` (src/internal/id.rs) from the
// usize length of the arena (src/internal/arena.rs, `alloc`): the
// (2^32 + 1)-th solvable silently gets the id of the first one.
// ---------------------------------------------------------------------------

/// A zero sized record: `Solvable<Unit>` is 4 bytes (only the `NameId`), so
/// 2^32 solvables need 16 GiB.
#[derive(Clone, Debug, PartialEq, Eq, Hash)]
struct Unit;
impl Display for Unit {
    fn fmt(&self, f: &mut Formatter<'_>) -> std::fmt::Result {
        write!(f, "unit")
    }
}
#[derive(Clone, Debug, PartialEq, Eq, Hash)]
struct UnitVs;
impl resolvo::utils::VersionSet for UnitVs {
    type V = Unit;
}

fn mem_available_gib() -> Option<u64> {
    let s = std::fs::read_to_string("/proc/meminfo").ok()?;
    let line = s.lines().find(|l| l.starts_with("MemAvailable:"))?;
    let kb: u64 = line.split_whitespace().nth(1)?.parse().ok()?;
    Some(kb / (1024 * 1024))
}

/// Minimal input: call `intern_solvable` 2^32 + 1 times on one pool
/// (records of a zero sized type to keep the memory at 16 GiB + overhead).
/// Expected by C18: all returned ids are different ("solvable ids are
/// unique and dense") and `resolve_solvable(id)` returns what was interned
/// under `id`. Observed: the last call returns `SolvableId(0)` again, and
/// resolving it yields the first solvable.
#[test]
fn solvable_ids_wrap_around_after_u32_max() {
    const NEED_GIB: u64 = 22;
    match mem_available_gib() {
        Some(g) if g < NEED_GIB => panic!(
            "CANNOT RUN: this demonstration needs about 18 GiB of memory, only {g} GiB available \
             (this panic is not the finding)"
        ),
        _ => {}
    }

    let pool: Pool<UnitVs, String> = Pool::new();
    let total: u64 = (1u64 << 32) + 1;

    let first = pool.intern_solvable(NameId(7), Unit);
    assert_eq!(first, SolvableId(0));
    let first_ref = pool.resolve_solvable(first);
    assert_eq!(first_ref.name, NameId(7));

    let mut last = first;
    let mut prev = first;
    for i in 1..total {
        // the name stored in solvable number i is (i mod 2^32) xor 0xABCD, so
        // solvable number 2^32 stores NameId(0xABCD), not NameId(7)
        let id = pool.intern_solvable(NameId((i as u32) ^ 0xABCD), Unit);
        if i < (1u64 << 32) {
            // up to here ids are dense
            assert_eq!(id.0 as u64, i, "id of solvable number {i}");
        }
        prev = last;
        last = id;
    }
    println!(
        "input: pool.intern_solvable(..) called 2^32 + 1 = {total} times; \
         id of call #1 = {first:?}, id of call #2^32 = {prev:?}, id of call #2^32+1 = {last:?}"
    );
    let resolved = pool.resolve_solvable(last);
    println!(
        "resolve_solvable(id of last call).name = {:?}, interned under that call: {:?}",
        resolved.name,
        NameId(0xABCD)
    );
    // the reference obtained at the very beginning is still fine
    assert_eq!(first_ref.name, NameId(7));

    assert_ne!(
        last, first,
        "C18 violated: intern_solvable returned the same id {last:?} for the 1st and the \
         (2^32+1)-th solvable (ids are not unique)"
    );
    assert_eq!(
        resolved.name,
        NameId(0xABCD),
        "C18 violated: resolving the id of the last interned solvable does not return it"
    );
}

// ---------------------------------------------------------------------------
// further hand-made scenarios (all pass on the unmodified code)
// ---------------------------------------------------------------------------

/// A package name type whose hashes collide massively: deduplication must
/// then rely on `Eq` only.
#[derive(Clone, Debug, PartialEq, Eq)]
struct Colliding(String);
impl std::hash::Hash for Colliding {
    fn hash<H: std::hash::Hasher>(&self, state: &mut H) {
        (self.0.len() % 2).hash(state)
    }
}
impl From<&str> for Colliding {
    fn from(s: &str) -> Self {
        Colliding(s.to_owned())
    }
}

#[test]
fn colliding_hashes_and_custom_name_type() {
    let pool: Pool<Vs, Colliding> = Pool::new();
    let mut rng = Rng(42);
    let mut model: HashMap<String, NameId> = HashMap::new();
    let mut held: Vec<(&Colliding, String)> = Vec::new();
    for _ in 0..3000 {
        let s = format!("p{}", rng.below(700));
        let id = if rng.below(2) == 0 {
            pool.intern_package_name(s.as_str())
        } else {
            pool.intern_package_name(Colliding(s.clone()))
        };
        let n = model.len();
        let want = *model.entry(s.clone()).or_insert(NameId(n as u32));
        assert_eq!(id, want, "name {s}");
        let r = pool.resolve_package_name(id);
        assert_eq!(r.0, s);
        held.push((r, s.clone()));
        assert_eq!(pool.lookup_package_name(&Colliding(s)), Some(id));
        assert_eq!(
            pool.lookup_package_name(&Colliding(format!("q{}", rng.below(700)))),
            None
        );
    }
    for (r, s) in held {
        assert_eq!(r.0, s);
    }
}

/// `intern_string` accepts anything that is `Into<String> + AsRef<str>`: the
/// same text must get the same id whatever the carrier type is.
#[test]
fn intern_string_carrier_types_agree() {
    use std::borrow::Cow;
    let pool: Pool<Vs, String> = Pool::new();
    for i in 0..600 {
        let text = if i % 50 == 0 {
            String::new()
        } else {
            format!("t{}\u{e9}\0{}", i % 300, "y".repeat(i % 9))
        };
        let a = pool.intern_string(text.as_str());
        let b = pool.intern_string(text.clone());
        let c = pool.intern_string(&text);
        let d = pool.intern_string(text.clone().into_boxed_str());
        let e = pool.intern_string(Cow::Borrowed(text.as_str()));
        let f = pool.intern_string(Cow::<str>::Owned(text.clone()));
        assert!(a == b && b == c && c == d && d == e && e == f, "{text:?}");
        assert_eq!(pool.resolve_string(a), text);
    }
}
