#!/bin/sh
# Builds the whole framework from files on disk, offline.
set -e
cd "$(dirname "$0")"
export CARGO_NET_OFFLINE=true
mkdir -p .build out evidence
( cd coq && coq_makefile -f _CoqProject -o Makefile >/dev/null && timeout 3000 make -j"$(nproc)" >/dev/null )
./ocaml/build.sh
./ocaml/build_render.sh
cp /repo/Cargo.lock harness/Cargo.lock
( cd harness && cargo build --offline -q --features hooks && cargo build --offline -q --release --features hooks )
./harness_cpp/build.sh >/dev/null
echo setup-ok
